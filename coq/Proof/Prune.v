(* Proofs about state pruning (property C27). *)
From ZC Require Import Model.Prune.
From Coq Require Import ZifyBool ZifyNat.
Open Scope Z_scope.

(* ---------- sets as lists ---------- *)

Lemma pr_heqb_eq a b : pr_heqb a b = true <-> a = b.
Proof.
  unfold pr_heqb. destruct a as [a1 a2], b as [b1 b2]. cbn. rewrite andb_true_iff, !Z.eqb_eq.
  split; [intros [-> ->]; reflexivity|intros E; inversion E; auto].
Qed.

Lemma pr_heqb_refl a : pr_heqb a a = true.
Proof. apply pr_heqb_eq. reflexivity. Qed.

Lemma pr_heqb_neq a b : a <> b -> pr_heqb a b = false.
Proof. intros H. destruct (pr_heqb a b) eqn:E; [apply pr_heqb_eq in E; contradiction|reflexivity]. Qed.

Lemma pr_mem_in h l : pr_mem h l = true <-> In h l.
Proof.
  unfold pr_mem. rewrite existsb_exists. split.
  - intros (x & Hx & E). apply pr_heqb_eq in E. subst. exact Hx.
  - intros Hin. exists h. split; [exact Hin|apply pr_heqb_refl].
Qed.

Lemma pr_mem_not_in h l : pr_mem h l = false <-> ~ In h l.
Proof. rewrite <- pr_mem_in. destruct (pr_mem h l); split; congruence. Qed.

Lemma pr_remove_in h x l : In x (pr_remove h l) <-> In x l /\ x <> h.
Proof.
  unfold pr_remove. rewrite filter_In. split.
  - intros [Hi Hn]. split; [exact Hi|]. intros ->. rewrite pr_heqb_refl in Hn. discriminate.
  - intros [Hi Hn]. split; [exact Hi|]. rewrite pr_heqb_neq; auto.
Qed.

Lemma pr_diff_in x l r : In x (pr_diff l r) <-> In x l /\ ~ In x r.
Proof.
  unfold pr_diff. rewrite filter_In, negb_true_iff, pr_mem_not_in. reflexivity.
Qed.

Lemma pr_subset_in l r : pr_subset l r = true <-> (forall x, In x l -> In x r).
Proof.
  unfold pr_subset. rewrite forallb_forall. split; intros H x Hx; [apply pr_mem_in|apply pr_mem_in]; auto.
Qed.

Lemma pr_disjoint_in l r : pr_disjoint l r = true <-> (forall x, In x l -> ~ In x r).
Proof.
  unfold pr_disjoint. rewrite forallb_forall. split; intros H x Hx.
  - apply pr_mem_not_in. specialize (H x Hx). apply negb_true_iff in H. exact H.
  - apply negb_true_iff. apply pr_mem_not_in. auto.
Qed.

(* ---------- ChangeCollector ---------- *)

Lemma cc_find_drop h k l : cc_find h (cc_drop k l) = if pr_heqb k h then None else cc_find h l.
Proof.
  unfold cc_drop. induction l as [|[k' o] l IH]; cbn [filter cc_find fst].
  - destruct (pr_heqb k h); reflexivity.
  - destruct (pr_heqb k' k) eqn:E1; cbn [negb cc_find].
    + apply pr_heqb_eq in E1. subst k'. rewrite IH. destruct (pr_heqb k h); reflexivity.
    + destruct (pr_heqb k' h) eqn:E2; [|exact IH].
      apply pr_heqb_eq in E2. subst k'. rewrite (pr_heqb_neq k h); [reflexivity|].
      intros ->. rewrite pr_heqb_refl in E1. discriminate.
Qed.

Lemma cc_find_in h o l : cc_find h l = Some o -> In (h, o) l.
Proof.
  induction l as [|[k o'] l IH]; cbn; [discriminate|]. destruct (pr_heqb k h) eqn:E.
  - intros H. inversion H. apply pr_heqb_eq in E. subst. left. reflexivity.
  - intros H. right. auto.
Qed.

Lemma cc_drop_in x k l : In x (cc_drop k l) <-> In x l /\ fst x <> k.
Proof.
  unfold cc_drop. rewrite filter_In. split.
  - intros [Hi Hn]. split; [exact Hi|]. intros E. rewrite E, pr_heqb_refl in Hn. discriminate.
  - intros [Hi Hn]. split; [exact Hi|]. rewrite pr_heqb_neq; auto.
Qed.

(* the invariant that makes dead-node recording safe: nothing in Deletes is live; every live
   node either existed before the block or is one of the collected changes (so it is saved);
   the Old of every change existed before the block *)
Definition cc_inv (live0 live : list pr_hash) (c : pr_cc) : Prop :=
  (forall h, In h (cc_deletes c) -> ~ In h live) /\
  (forall h, In h live -> In h live0 \/ cc_find h (cc_changes c) <> None) /\
  (forall k o, In (k, Some o) (cc_changes c) -> In o live0).

Lemma cc_inv_empty live0 : cc_inv live0 live0 cc_empty.
Proof. split; [intros h []|]. split; [intros h Hh; left; exact Hh|intros k o []]. Qed.

(* shape shared by the three AddChange outcomes that register the new node *)
Lemma cc_inv_add_generic live0 live c (o : option pr_hash) n prev ch dels :
  cc_inv live0 live c ->
  (forall h, In h dels -> In h (cc_deletes c) /\ h <> n \/ Some h = o /\ h <> n) ->
  (forall h, h <> n -> Some h <> o -> cc_find h (cc_changes c) <> None -> cc_find h ch <> None) ->
  (forall k po, In (k, Some po) ch -> In (k, Some po) (cc_changes c)) ->
  (forall po, prev = Some po -> In po live0) ->
  cc_inv live0 (n :: pr_remove n (match o with Some x => pr_remove x live | None => live end))
         {| cc_changes := (n, prev) :: cc_drop n ch; cc_deletes := dels |}.
Proof.
  intros (Hd & Hl & Ho) Hdels Hch Hold Hprev. split; [|split]; cbn [cc_deletes cc_changes].
  - intros h Hh Hin. destruct Hin as [<-|Hin].
    + destruct (Hdels _ Hh) as [[_ Hn]|[_ Hn]]; congruence.
    + apply pr_remove_in in Hin. destruct Hin as [Hin Hhn].
      destruct (Hdels _ Hh) as [[Hdc _]|[Heq _]].
      * destruct o as [x|]; [apply pr_remove_in in Hin; destruct Hin as [Hin _]|]; exact (Hd h Hdc Hin).
      * subst o. apply pr_remove_in in Hin. destruct Hin as [_ Hne]. congruence.
  - intros h [<-|Hin]; [right; cbn; rewrite pr_heqb_refl; discriminate|].
    apply pr_remove_in in Hin. destruct Hin as [Hin Hhn].
    assert (Hlive : In h live /\ Some h <> o).
    { destruct o as [x|]; [apply pr_remove_in in Hin; destruct Hin as [Hin Hx]; split; [exact Hin|congruence]|split; [exact Hin|discriminate]]. }
    destruct Hlive as [Hlv Hno]. destruct (Hl h Hlv) as [H0|Hc]; [left; exact H0|]. right. cbn.
    rewrite (pr_heqb_neq n h) by congruence. rewrite cc_find_drop, (pr_heqb_neq n h) by congruence. auto.
  - intros k po [E|Hin].
    + inversion E. subst. apply Hprev. reflexivity.
    + apply cc_drop_in in Hin. destruct Hin as [Hin _]. apply (Ho k po). apply Hold. exact Hin.
Qed.

Lemma cc_inv_step live0 live c m : cc_inv live0 live c -> pr_micro_ok live m = true ->
  cc_inv live0 (pr_live_step live m) (cc_step c m).
Proof.
  intros Hinv Hok. pose proof Hinv as (Hd & Hl & Ho).
  destruct m as [[o|] n|o]; cbn [pr_micro_ok pr_live_step cc_step] in *.
  - (* AddChange(old, new) *)
    apply andb_prop in Hok. destruct Hok as [Holive Hne]. apply pr_mem_in in Holive. apply negb_true_iff in Hne.
    assert (Hon : o <> n) by (intros ->; rewrite pr_heqb_refl in Hne; discriminate).
    unfold cc_add. destruct (cc_find o (cc_changes c)) as [prev|] eqn:Ef.
    + (* the old node is itself a change of this block *)
      assert (Hgen : cc_inv live0 (n :: pr_remove n (pr_remove o live))
                 {| cc_changes := (n, prev) :: cc_drop n (cc_drop o (cc_changes c));
                    cc_deletes := pr_remove n (cc_deletes c) |}).
      { apply (cc_inv_add_generic live0 live c (Some o) n prev (cc_drop o (cc_changes c))); auto.
        - intros h Hh. apply pr_remove_in in Hh. left. exact Hh.
        - intros h Hhn Hho Hc. rewrite cc_find_drop. rewrite (pr_heqb_neq o h) by congruence. exact Hc.
        - intros k po Hin. apply cc_drop_in in Hin. tauto.
        - intros po ->. apply (Ho o po). apply cc_find_in. exact Ef. }
      destruct prev as [po|]; [|exact Hgen]. destruct (pr_heqb n po) eqn:Enp; [|exact Hgen].
      (* back to the node the first change replaced: that one existed before the block *)
      apply pr_heqb_eq in Enp. subst po.
      assert (Hn0 : In n live0) by (apply (Ho o n); apply cc_find_in; exact Ef).
      split; [|split]; cbn [cc_deletes cc_changes].
      * intros h Hh Hin. apply pr_remove_in in Hh. destruct Hh as [Hh Hhn].
        destruct Hin as [->|Hin]; [congruence|]. apply pr_remove_in in Hin. destruct Hin as [Hin _].
        apply pr_remove_in in Hin. destruct Hin as [Hin _]. exact (Hd h Hh Hin).
      * intros h [<-|Hin]; [left; exact Hn0|].
        apply pr_remove_in in Hin. destruct Hin as [Hin Hhn]. apply pr_remove_in in Hin. destruct Hin as [Hin Hho].
        destruct (Hl h Hin) as [H0|Hc]; [left; exact H0|]. right.
        rewrite cc_find_drop, (pr_heqb_neq o h) by congruence. exact Hc.
      * intros k po Hin. apply cc_drop_in in Hin. destruct Hin as [Hin _]. eapply Ho; eauto.
    + (* the old node existed before the block: it becomes dead *)
      assert (Ho0 : In o live0).
      { destruct (Hl o Holive) as [H0|Hc]; [exact H0|congruence]. }
      apply (cc_inv_add_generic live0 live c (Some o) n (Some o) (cc_changes c)); auto.
      * intros h [<-|Hh]; [right; split; [reflexivity|exact Hon]|].
        apply pr_remove_in in Hh. destruct Hh as [Hh _]. apply pr_remove_in in Hh. left. exact Hh.
      * intros po E. inversion E. subst. exact Ho0.
  - (* AddChange(nil, new) *)
    unfold cc_add.
    apply (cc_inv_add_generic live0 live c None n None (cc_changes c)); auto.
    + intros h Hh. apply pr_remove_in in Hh. left. exact Hh.
    + intros po E. discriminate.
  - (* DeleteChange(old) *)
    apply pr_mem_in in Hok. unfold cc_del. destruct (cc_find o (cc_changes c)) eqn:Ef.
    + split; [|split]; cbn [cc_deletes cc_changes].
      * intros h Hh Hin. apply pr_remove_in in Hin. destruct Hin as [Hin _]. exact (Hd h Hh Hin).
      * intros h Hin. apply pr_remove_in in Hin. destruct Hin as [Hin Hho].
        destruct (Hl h Hin) as [H0|Hc]; [left; exact H0|]. right.
        rewrite cc_find_drop, (pr_heqb_neq o h) by congruence. exact Hc.
      * intros k po Hin. apply cc_drop_in in Hin. destruct Hin as [Hin _]. eapply Ho; eauto.
    + split; [|split]; cbn [cc_deletes cc_changes].
      * intros h [<-|Hh] Hin.
        -- apply pr_remove_in in Hin. destruct Hin as [_ Hne]. congruence.
        -- apply pr_remove_in in Hh. destruct Hh as [Hh _]. apply pr_remove_in in Hin. destruct Hin as [Hin _].
           exact (Hd h Hh Hin).
      * intros h Hin. apply pr_remove_in in Hin. destruct Hin as [Hin _]. exact (Hl h Hin).
      * exact Ho.
Qed.

Lemma cc_inv_run live0 ms : forall live c, cc_inv live0 live c -> pr_micros_ok live ms = true ->
  cc_inv live0 (fold_left pr_live_step ms live) (fold_left cc_step ms c).
Proof.
  induction ms as [|m ms IH]; intros live c Hinv Hok; [exact Hinv|].
  cbn [pr_micros_ok] in Hok. apply andb_prop in Hok. destruct Hok as [H1 H2].
  cbn [fold_left]. apply IH; [apply cc_inv_step; assumption|exact H2].
Qed.

(* C27, inside one block: whatever the sequence of insertNode/deleteNode calls (including a
   node deleted and created again with the identical hash), at the end nothing that the
   collector reports as deleted is part of the block's state, and every node of the state that
   did not exist before the block is among the collected changes (and so gets saved) *)
Lemma cc_safe live0 ms : pr_micros_ok live0 ms = true ->
  let c := cc_run ms in
  let live := pr_live_run live0 ms in
  (forall h, In h (cc_deletes c) -> ~ In h live) /\
  (forall h, In h live -> In h live0 \/ exists o, In (h, o) (cc_changes c)).
Proof.
  intros Hok c live. destruct (cc_inv_run live0 ms live0 cc_empty (cc_inv_empty live0) Hok) as (Hd & Hl & _).
  split; [exact Hd|]. intros h Hin. destruct (Hl h Hin) as [H0|Hc]; [left; exact H0|]. right.
  destruct (cc_find h (cc_changes (fold_left cc_step ms cc_empty))) as [o|] eqn:E; [|congruence].
  exists o. apply cc_find_in. exact E.
Qed.

(* ---------- finalize / prune ---------- *)

(* pruneClientState never prunes closer than count rounds behind the LFB *)
Lemma pr_version_bound s count v : pr_version s count = Some v -> v <= ps_lfb s - count.
Proof.
  unfold pr_version. destruct (ps_lfb s <=? count); [discriminate|].
  destruct (skipn _ (ps_ring s)) as [|r tl]; [discriminate|].
  destruct (Z.ltb_spec (ps_lfb s - count) (pr_walk tl r)); [discriminate|]. intros E. inversion E. subst. lia.
Qed.

Definition pr_inv (s : pr_state) : Prop :=
  (* the chain is below the LFB and its latest block is the LFB *)
  (forall b, In b (ps_blocks s) -> pb_round b <= ps_lfb s) /\
  (match ps_blocks s with b :: _ => pb_round b = ps_lfb s | [] => True end) /\
  (* a dead-node record holds nothing younger than its round *)
  (forall r ds, In (r, ds) (ps_dead s) -> forall h, In h ds -> fst h <= r) /\
  (* what is recorded dead at round r is not part of any state of the chain at or after r *)
  (forall r ds b, In (r, ds) (ps_dead s) -> In b (ps_blocks s) -> r <= pb_round b ->
     forall h, In h ds -> ~ In h (pb_nodes b)) /\
  (* every block of the chain at or above everything pruned so far has its whole state in the DB *)
  (forall b, In b (ps_blocks s) -> ps_pruned s <= pb_round b ->
     forall h, In h (pb_nodes b) -> In h (ps_db s)) /\
  ps_pruned s <= ps_lfb s.

Lemma pr_inv_init lfb : pr_inv (pr_init lfb).
Proof.
  unfold pr_inv, pr_init. cbn. repeat split; intros; try contradiction; auto; lia.
Qed.

Lemma pr_adds_origin r ids h : In h (pr_adds r ids) -> fst h = r.
Proof. unfold pr_adds. rewrite in_map_iff. intros (i & <- & _). reflexivity. Qed.

Lemma pr_inv_block s r ids dels nodes : pr_inv s ->
  pr_op_ok s (OpBlock r ids dels nodes) = true ->
  pr_inv (pr_finalize s r (pr_adds r ids) dels nodes).
Proof.
  intros (Hle & Hhd & Horg & Hdis & Hdb & Hpl) Hok. cbn [pr_op_ok] in Hok.
  apply andb_prop in Hok. destruct Hok as [Hok Hdo]. apply andb_prop in Hok. destruct Hok as [Hok Hdj].
  apply andb_prop in Hok. destruct Hok as [Hok Hnodes]. apply andb_prop in Hok. destruct Hok as [Hr Hstale].
  apply Z.ltb_lt in Hr. rewrite forallb_forall in Hnodes, Hdo, Hstale.
  assert (Hdj' := proj1 (pr_disjoint_in _ _) Hdj).
  unfold pr_inv, pr_finalize. cbn [ps_db ps_dead ps_ring ps_lfb ps_blocks ps_pruned].
  split; [|split; [|split; [|split; [|split]]]].
  - intros b [<-|Hb]; cbn; [lia|]. specialize (Hle b Hb). lia.
  - reflexivity.
  - intros r0 ds [E|Hin] h Hh.
    + inversion E. subst. specialize (Hdo h Hh). lia.
    + apply filter_In in Hin. destruct Hin as [Hin _]. eapply Horg; eauto.
  - intros r0 ds b [E|Hin] Hb Hrb h Hh.
    + inversion E. subst r0 ds. destruct Hb as [<-|Hb]; cbn [pb_nodes pb_round] in *.
      * apply Hdj'. exact Hh.
      * specialize (Hle b Hb). lia.
    + apply filter_In in Hin. destruct Hin as [Hin Hne]. apply negb_true_iff, Z.eqb_neq in Hne. cbn [fst] in Hne.
      destruct Hb as [<-|Hb]; cbn [pb_nodes pb_round] in *; [|eapply Hdis; eauto].
      (* an older record against the new block: it is not a stale record of a later round *)
      specialize (Hstale (r0, ds) Hin). cbn [fst] in Hstale.
      assert (Hr0 : r0 <= ps_lfb s) by lia.
      intros Hn. specialize (Hnodes h Hn). apply orb_prop in Hnodes. destruct Hnodes as [Hp|Ha].
      * apply pr_mem_in in Hp. unfold pr_prev_nodes in Hp. destruct (ps_blocks s) as [|pb tl] eqn:Eb; [destruct Hp|].
        apply (Hdis r0 ds pb Hin ltac:(left; reflexivity) ltac:(lia) h Hh Hp).
      * apply pr_mem_in in Ha. apply pr_adds_origin in Ha. specialize (Horg r0 ds Hin h Hh). lia.
  - intros b [<-|Hb] Hret h Hh; cbn [pb_nodes pb_round] in *.
    + specialize (Hnodes h Hh). apply orb_prop in Hnodes. apply in_or_app. destruct Hnodes as [Hp|Ha].
      * right. apply pr_mem_in in Hp. unfold pr_prev_nodes in Hp. destruct (ps_blocks s) as [|pb tl] eqn:Eb; [destruct Hp|].
        apply (Hdb pb ltac:(left; reflexivity) ltac:(lia) h Hp).
      * left. apply pr_mem_in. exact Ha.
    + apply in_or_app. right. apply (Hdb b Hb); [lia|exact Hh].
  - lia.
Qed.

Lemma pr_inv_prune_below count s v : 0 <= count -> pr_inv s -> v <= ps_lfb s - count ->
  pr_inv (pr_prune_below s v).
Proof.
  intros Hc (Hle & Hhd & Horg & Hdis & Hdb & Hpl) Hv. unfold pr_inv, pr_prune_below.
  cbn [ps_db ps_dead ps_ring ps_lfb ps_blocks ps_pruned].
  split; [exact Hle|]. split; [exact Hhd|]. split; [|split; [|split]].
  - intros r ds Hin. apply filter_In in Hin. destruct Hin as [Hin _]. eauto.
  - intros r ds b Hin. apply filter_In in Hin. destruct Hin as [Hin _]. eauto.
  - intros b Hb Hret h Hh. apply pr_diff_in. split; [apply (Hdb b Hb ltac:(lia) h Hh)|].
    intros Hg. apply in_flat_map in Hg. destruct Hg as ([r ds] & Hin & Hh'). cbn [fst snd] in Hh'.
    destruct (Z.ltb_spec r v); [|destruct Hh'].
    apply (Hdis r ds b Hin Hb ltac:(lia) h Hh' Hh).
  - lia.
Qed.

Lemma pr_inv_rollback s r0 : pr_inv s -> pr_op_ok s (OpRollback r0) = true -> pr_inv (pr_rollback s r0).
Proof.
  intros (Hle & Hhd & Horg & Hdis & Hdb & Hpl) Hok. cbn [pr_op_ok] in Hok.
  apply andb_prop in Hok. destruct Hok as [Hok Hhead]. apply andb_prop in Hok. destruct Hok as [Hp Hr].
  unfold pr_inv, pr_rollback. cbn [ps_db ps_dead ps_ring ps_lfb ps_blocks ps_pruned].
  split; [|split; [|split; [|split; [|split]]]].
  - intros b Hb. apply filter_In in Hb. destruct Hb as [_ Hb]. lia.
  - destruct (filter _ (ps_blocks s)); [exact I|]. lia.
  - exact Horg.
  - intros r ds b Hin Hb. apply filter_In in Hb. destruct Hb as [Hb _]. eauto.
  - intros b Hb. apply filter_In in Hb. destruct Hb as [Hb _]. eauto.
  - lia.
Qed.

Lemma pr_inv_step count s o : 0 <= count -> pr_inv s -> pr_op_ok s o = true -> pr_inv (pr_apply count s o).
Proof.
  intros Hc Hinv Hok. destruct o as [r ids dels nodes| |r0]; cbn [pr_apply].
  - apply pr_inv_block; assumption.
  - unfold pr_prune. destruct (pr_version s count) as [v|] eqn:E; [|exact Hinv].
    apply (pr_inv_prune_below count); [exact Hc|exact Hinv|]. apply pr_version_bound. exact E.
  - apply pr_inv_rollback; assumption.
Qed.

Lemma pr_inv_run count ops : forall s, 0 <= count -> pr_inv s -> pr_ops_ok count s ops = true ->
  pr_inv (pr_run count s ops).
Proof.
  induction ops as [|o ops IH]; intros s Hc Hinv Hok; [exact Hinv|].
  cbn [pr_ops_ok] in Hok. apply andb_prop in Hok. destruct Hok as [H1 H2].
  unfold pr_run. cbn [fold_left]. apply IH; [exact Hc|apply (pr_inv_step count); assumption|exact H2].
Qed.

(* C27 prune_safe: after any history of finalized blocks, prunes and roll backs (a round can be
   finalized again with another block), the whole state of every block of the finalized chain
   that is not below a pruned version is in the node DB *)
Theorem pr_prune_safe count lfb0 ops : 0 <= count -> pr_ops_ok count (pr_init lfb0) ops = true ->
  let s := pr_run count (pr_init lfb0) ops in
  forall b, In b (ps_blocks s) -> ps_pruned s <= pb_round b -> pr_readable s b = true.
Proof.
  intros Hc Hok s b Hb Hret. unfold pr_readable. apply pr_subset_in.
  destruct (pr_inv_run count ops (pr_init lfb0) Hc (pr_inv_init lfb0) Hok) as (_ & _ & _ & _ & Hdb & _).
  apply (Hdb b Hb Hret).
Qed.

