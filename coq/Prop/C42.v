(* C42: Replicating sharders are chosen deterministically.
   Only statements; each is closed by [exact] of a lemma in Proof/Replicate.v.
   rp_build l = the sharder pool after AddNode of the nodes of l in that order;
   rp_is_block_sharder k pool hash key = Chain.IsBlockSharder(FromHash) with NumReplicators = k;
   rp_can_shard_with_replicators = Chain.CanShardBlockWithReplicators. *)
From ZC Require Import Model.Replicate Proof.Replicate Gen.ScorerReads.
From Coq Require Import Sorting.Permutation.
Open Scope Z_scope.

(* The pool (node order, hence every SetIndex) is the same whatever the insertion order. *)
Theorem C42_pool_order_independent :
  forall l1 l2, NoDup (map rp_key l1) -> Permutation l1 l2 -> rp_build l1 = rp_build l2.
Proof. exact rp_build_order_independent. Qed.
Print Assumptions C42_pool_order_independent.

(* Every node computes the same answers for a block hash and a sharder set, independent of the
   order in which the sharders were added (any k, any hash incl. undecodable/short ones). *)
Theorem C42_same_set_any_order :
  forall l1 l2 k hash key, NoDup (map rp_key l1) -> Permutation l1 l2 ->
  rp_is_block_sharder k (rp_build l1) hash key = rp_is_block_sharder k (rp_build l2) hash key /\
  rp_can_shard_with_replicators k (rp_build l1) hash key = rp_can_shard_with_replicators k (rp_build l2) hash key.
Proof. exact rp_same_set_any_order. Qed.
Print Assumptions C42_same_set_any_order.

(* The set itself, free of any order: with 1 <= k <= #sharders, sharder x stores the block iff
   fewer than k sharders have a strictly higher score (sc0 = the per-sharder scores); a node
   outside the set of sharders never does. Ties at the cut-off are all included. *)
Theorem C42_replicator_iff_fewer_than_k_better :
  forall l hash k sc0, let pool := rp_build l in
  rp_scores_from 0 pool hash = Some sc0 -> 1 <= k <= Z.of_nat (length pool) ->
  (forall x, In x sc0 ->
     rp_is_block_sharder k pool (Some hash) (rp_key (rp_nd x)) =
       Some (Nat.ltb (rp_count_gt sc0 (rp_val x)) (Z.to_nat k))) /\
  (forall key, ~ In key (map rp_key pool) -> rp_is_block_sharder k pool (Some hash) key = Some false).
Proof. exact rp_replicator_iff. Qed.
Print Assumptions C42_replicator_iff_fewer_than_k_better.

(* When enough sharders exist (k <= n) the replicator list has at least k distinct sharders of
   the pool, and IsBlockSharder agrees with membership in that list. *)
Theorem C42_at_least_k_when_enough :
  forall l hash k key, let pool := rp_build l in
  1 <= k <= Z.of_nat (length pool) ->
  Forall (fun n => (length (rp_idb n) <= length hash)%nat) pool ->
  exists top, rp_can_shard_with_replicators k pool (Some hash) key = Some (rp_has_key top key, top) /\
              rp_is_block_sharder k pool (Some hash) key = Some (rp_has_key top key) /\
              (Z.to_nat k <= length top)%nat /\ NoDup (map rp_key top) /\ (forall n, In n top -> In n pool).
Proof. exact rp_at_least_k. Qed.
Print Assumptions C42_at_least_k_when_enough.

(* Replication disabled (k <= 0): every sharder stores every block. *)
Theorem C42_everyone_when_disabled :
  forall k pool hash key, k <= 0 ->
  rp_is_block_sharder k pool hash key = Some true /\
  rp_can_shard_with_replicators k pool hash key = Some (true, pool).
Proof. exact rp_everyone_when_disabled. Qed.
Print Assumptions C42_everyone_when_disabled.

(* Documented edges: more replicators configured than sharders exist, or an undecodable hash:
   nobody is a replicator. *)
Theorem C42_nobody_when_k_gt_n :
  forall k pool hash key, Z.of_nat (length pool) < k -> 0 < k ->
  Forall (fun n => (length (rp_idb n) <= length hash)%nat) pool ->
  rp_is_block_sharder k pool (Some hash) key = Some false.
Proof. exact rp_nobody_when_k_gt_n. Qed.
Print Assumptions C42_nobody_when_k_gt_n.

Theorem C42_bad_hash_nobody :
  forall k pool key, 0 < k -> rp_is_block_sharder k pool None key = Some false.
Proof. exact rp_bad_hash_nobody. Qed.
Print Assumptions C42_bad_hash_nobody.

(* Any AddNode history (re-adding a key, replacing the node object, ...) leaves a pool that
   lists every key of the history exactly once, in key order. *)
Theorem C42_pool_is_duplicate_free_listing :
  forall l, NoDup (map rp_key (rp_build l)) /\ forall k, In k (map rp_key (rp_build l)) <-> In k (map rp_key l).
Proof. exact rp_build_listing. Qed.
Print Assumptions C42_pool_is_duplicate_free_listing.

(* Node.SetIndex is a field of the (possibly shared) node object: whatever values the objects
   carry when the scores are sorted (idxs, a recorded input), the answers are those of the
   canonical positions; the replicator list is the same up to order. *)
Theorem C42_set_index_irrelevant :
  forall idxs l hash k key, let pool := rp_build l in
  rp_is_block_sharder_ix idxs k pool hash key = rp_is_block_sharder k pool hash key.
Proof. exact rp_set_index_irrelevant. Qed.
Print Assumptions C42_set_index_irrelevant.

Theorem C42_set_index_irrelevant_with_nodes :
  forall idxs l hash k key, let pool := rp_build l in
  match rp_can_shard_with_replicators_ix idxs k pool hash key, rp_can_shard_with_replicators k pool hash key with
  | Some (b1, t1), Some (b2, t2) => b1 = b2 /\ Permutation t1 t2
  | None, None => True
  | _, _ => False
  end.
Proof. exact rp_set_index_irrelevant_with. Qed.
Print Assumptions C42_set_index_irrelevant_with_nodes.

(* Non-vacuity: four sharders added in two orders, one-byte ids, a tie at the cut-off. *)
Example C42_example :
  let a := {| rp_key := 40; rp_idb := [1] |} in let b := {| rp_key := 10; rp_idb := [3] |} in
  let c := {| rp_key := 30; rp_idb := [5] |} in let d := {| rp_key := 20; rp_idb := [255] |} in
  rp_build [a; b; c; d] = [b; d; c; a] /\ rp_build [d; c; b; a] = [b; d; c; a] /\
  map (fun key => rp_is_block_sharder 2 (rp_build [a; b; c; d]) (Some [0]) key) [10; 20; 30; 40; 50]
    = [Some true; Some true; Some true; Some false; Some false] /\
  rp_is_block_sharder 5 (rp_build [a; b; c; d]) (Some [0]) 20 = Some false /\
  rp_is_block_sharder 1 (rp_build [a; b; c; d]) (Some []) 20 = None.
Proof. vm_compute. repeat split; reflexivity. Qed.

(* The model computes the replicator set from the sharder ids, the hash and N alone. The translator
   scorerreads (go/ast over chaincore/node, regenerated every run) lists what node_pool_scorer.go
   selects from a node: only the id bytes and SetIndex (irrelevant by C42_set_index_irrelevant) --
   no per-process state (Status, LastActiveTime, Info, counters ...), so two processes holding the
   same sharder set compute the same set. *)
Module C42Reads.
Import Coq.Strings.String.
Example C42_scorer_reads_only_id_bytes_and_set_index :
  rp_scorer_node_reads = ["SetIndex"%string; "idBytes"%string].
Proof. reflexivity. Qed.
End C42Reads.

