(* Correspondence for C29 / C30: cases observed on the real chaincore/block and
   chaincore/transaction code; [hc_check] re-runs the model (with the GENERATED tables) and
   compares projected observables only:
   - HcData: the exact string fed to encryption.Hash (getHashData / HashData); the hash function
     and MHash are given as lookup tables recorded from the real run;
   - HcMut: whether mutating one Go field path changed ComputeHash();
   - HcBlk / HcTx: the verdict class of Block.Validate / ComputeProperties+ValidateWrtTime on the
     recorded validation inputs. *)
From ZC Require Import Base.Corr Model.HashEnc Gen.HashFields.
Open Scope string_scope.

Definition hc_lookup (t : list (string * string)) (s : string) : string :=
  match find (fun kv => String.eqb (fst kv) s) t with
  | Some kv => snd kv
  | None => "?"
  end.

Definition hc_lookup2 (t : list ((string * string) * string)) (a b : string) : string :=
  match find (fun kv => String.eqb (fst (fst kv)) a && String.eqb (snd (fst kv)) b) t with
  | Some kv => snd kv
  | None => "?"
  end.

Inductive hc_case :=
| HcData (txn : bool) (obj : list (string * he_val)) (hashes : list (string * string))
         (mhs : list ((string * string) * string)) (data : option string)
| HcMut (txn : bool) (lazy_empty : bool) (path : string) (changed : bool)
| HcBlk (i : bk_in) (v : bk_verdict)
| HcTx (i : tx_in) (v : tx_verdict)
(* block path: Block.ComputeProperties, then miner.ValidateTransactions (ValidateWrtTimeForBlock +
   per-transaction or aggregate signature check): accepted or not *)
| HcTxB (i : tx_in) (accepted : bool).

Definition hc_table (txn : bool) : list he_entry := if txn then hf_txn else hf_block.

Definition hc_ostr_eqb (a b : option string) : bool := option_eqb String.eqb a b.

(* both "hash required" and "miner id is required" are common.InvalidRequest: one class *)
Definition hc_bk_class (v : bk_verdict) : nat :=
  match v with
  | BkOk => 0 | BkBadChain => 1 | BkNoHash => 2 | BkNoMiner => 2 | BkUnknownMiner => 3
  | BkDuplicateTxns => 4 | BkHashMismatch => 5 | BkSigError => 6 | BkBadSignature => 7
  end.

(* classes by error code: invalid_request covers to-client / hash required / time / self *)
Definition hc_tx_class (v : tx_verdict) : nat :=
  match v with
  | TxOk => 0 | TxBadScData => 1 | TxNoPublicKey => 2 | TxKeyIdMismatch => 3
  | TxBadTo => 4 | TxNoHash => 4 | TxTime => 4 | TxSelf => 4
  | TxBadChain => 5 | TxHashMismatch => 6 | TxSigError => 7 | TxBadSignature => 8
  | TxOutputMismatch => 6
  end.

Definition hc_check (c : hc_case) : bool :=
  match c with
  | HcData txn obj hashes mhs data =>
      hc_ostr_eqb (he_data (hc_lookup hashes) (he_mroot (hc_lookup2 mhs)) (hc_table txn) (he_obj_of obj)) data
  | HcMut txn lazy_empty path changed =>
      Bool.eqb (he_binds (hc_table txn) lazy_empty path) changed
  | HcBlk i v => Nat.eqb (hc_bk_class (bk_validate i)) (hc_bk_class v)
  | HcTx i v => Nat.eqb (hc_tx_class (tx_accept i)) (hc_tx_class v)
  | HcTxB i accepted => Bool.eqb (Nat.eqb (hc_tx_class (tx_accept i)) 0) accepted
  end.
