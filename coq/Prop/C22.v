(* C22: Block fees and rewards are split exactly between miner and sharders.
   Model: Model/MinerFees.v (payFees, splitByShareRatio, payShardersAndDelegates of minersc with
   view change disabled) over Model/StakePool.v (DistributeRewardsRandN). Only statements. *)
From ZC Require Import Model.StakePool Model.MinerFees Proof.StakePool Proof.MinerFees.
Open Scope Z_scope.

(* miner part + sharder part = the amount, for every result of the float product *)
Theorem C22_split_exact :
  forall splitf ratio x m s,
  (forall r y c, splitf r y = Some c -> 0 <= c) ->
  mf_split splitf ratio x = Some (m, s) -> m + s = x /\ 0 <= m <= x /\ 0 <= s.
Proof. exact mf_split_exact. Qed.
Print Assumptions C22_split_exact.

(* the sharder side is divided with no token lost or created: the amounts handed to the n >= 1
   rewarded sharders add up to the reward, each is reward/n or reward/n + 1 *)
Theorem C22_sharders_split_exact :
  forall reward k, 0 <= reward -> (0 < k)%nat ->
  sp_sum (mf_shares reward k) = reward /\ length (mf_shares reward k) = k /\
  Forall (fun x => x = reward / Z.of_nat k \/ x = reward / Z.of_nat k + 1) (mf_shares reward k) /\
  Forall (fun x => 0 <= x <= reward) (mf_shares reward k).
Proof. exact mf_shares_exact. Qed.
Print Assumptions C22_sharders_split_exact.

(* accepted only from the block's generator and only for the block's own round *)
Theorem C22_only_generator_and_round :
  forall chargef sharef splitf gn bk client in_round miner live sharders md sd r,
  mf_pay_fees chargef sharef splitf gn bk client in_round miner live sharders md sd = SpOk r ->
  client = bk_miner bk /\ in_round = bk_round bk.
Proof. exact mf_pay_fees_guards. Qed.
Print Assumptions C22_only_generator_and_round.

(* the whole payment, for every (non-negative) float rounding and any number of rewarded
   sharders, zero included: no panic; the four amounts handed to the miner side and the sharder
   side add up to fees + block reward; the sharder amounts add up to the sharder side; what is
   credited to all stake pools together never exceeds fees + block reward (it is less only
   where C10 says a pool gets nothing: killed, under-staked; or when there is no rewarded
   sharder / miner to credit) *)
Theorem C22_pay_fees_exact_and_bounded :
  forall (chargef : f64 -> Z -> option Z) (sharef : Z -> Z -> Z -> option Z) (splitf : f64 -> Z -> option Z),
  (forall a b c r, sharef a b c = Some r -> 0 <= r) ->
  (forall r x c, chargef r x = Some c -> 0 <= c) ->
  (forall r y c, splitf r y = Some c -> 0 <= c) ->
  forall gn bk client in_round miner live sharders md sd fees br,
  Forall (fun f => 0 <= f) (bk_fees bk) ->
  mf_sum_fees (bk_fees bk) 0 = Some fees ->
  f64_mult_coin (gn_block_reward gn) (gn_reward_rate gn) = Some br ->
  (forall m, miner = Some m -> mf_node_ok (2 * (fees + br)) (gn_nmd gn) m md) ->
  length sd = length sharders ->
  Forall2 (mf_node_ok (2 * (fees + br)) (gn_nsd gn)) sharders sd ->
  mf_pay_fees chargef sharef splitf gn bk client in_round miner live sharders md sd <> SpPanic /\
  forall miner' sharders',
    mf_pay_fees chargef sharef splitf gn bk client in_round miner live sharders md sd = SpOk (miner', sharders') ->
    exists mr sr mfe sfe,
      mf_split splitf (gn_share_ratio gn) br = Some (mr, sr) /\ mf_split splitf (gn_share_ratio gn) fees = Some (mfe, sfe) /\
      mr + sr + mfe + sfe = fees + br /\
      (sharders <> [] -> sp_sum (mf_shares sfe (length sharders)) = sfe /\ sp_sum (mf_shares sr (length sharders)) = sr) /\
      mf_opt_total miner + mf_total sharders <= mf_opt_total miner' + mf_total sharders'
        <= mf_opt_total miner + mf_total sharders + fees + br /\
      map nd_id sharders' = map nd_id sharders.
Proof. exact mf_pay_fees_bounds. Qed.
Print Assumptions C22_pay_fees_exact_and_bounded.

(* once per round.  The contract itself has no guard (F-22): *)
Definition C22_once_per_round_by_contract_alone : Prop :=
  forall gn bk client r miner live sharders md sd miner1 sharders1,
    mf_pay_fees sp_chargef_go sp_sharef_go mf_splitf_go gn bk client r miner live sharders md sd = SpOk (miner1, sharders1) ->
    forall res, mf_pay_fees sp_chargef_go sp_sharef_go mf_splitf_go gn bk client r miner1 live sharders1 md sd <> SpOk res.

Theorem C22_contract_alone_repeats_refuted : ~ C22_once_per_round_by_contract_alone.
Proof. exact mf_contract_alone_repeats. Qed.
Print Assumptions C22_contract_alone_repeats_refuted.

(* the rule is enforced where blocks are validated: a block accepted by ValidateTransactions
   contains at most one payFees transaction (payFees is in the built-in table), and by
   C22_only_generator_and_round a payFees only succeeds in the block of its own round *)
Theorem C22_once_per_block :
  forall builtin txns seen, builtin mf_fn_pay_fees = true ->
  mf_block_valid builtin seen txns = true ->
  (count_occ Z.eq_dec txns mf_fn_pay_fees <= 1)%nat /\
  (In mf_fn_pay_fees seen -> count_occ Z.eq_dec txns mf_fn_pay_fees = 0%nat).
Proof. exact mf_block_valid_once. Qed.
Print Assumptions C22_once_per_block.

(* block level (validate the block's transactions, then execute them): for any block accepted by
   ValidateTransactions - whose invariant is "at most one built-in transaction of each name,
   over ALL validation batches" - executing the block either leaves the stake pools alone or is
   exactly ONE successful payFees of the state before the block; with
   C22_pay_fees_exact_and_bounded that payment hands out exactly fees + block reward *)
Theorem C22_valid_block_pays_once :
  forall chargef sharef splitf gn bk live md sd builtin,
  builtin mf_fn_pay_fees = true ->
  forall txns seen st,
  (forall fn, In (TxOther fn) txns -> fn <> mf_fn_pay_fees) ->
  mf_block_valid builtin seen (map mf_txn_name txns) = true ->
  (In mf_fn_pay_fees seen -> mf_run_block chargef sharef splitf gn bk live md sd st txns = st) /\
  (mf_run_block chargef sharef splitf gn bk live md sd st txns = st \/
   exists c r, In (TxPay c r) txns /\
     mf_pay chargef sharef splitf gn bk live md sd st c r = SpOk (mf_run_block chargef sharef splitf gn bk live md sd st txns)).
Proof. exact mf_valid_block_pays_once. Qed.
Print Assumptions C22_valid_block_pays_once.

(* Non-vacuity: block reward 1000, fees 40, share ratio 0.5: miner side 500 + 20, the single
   sharder 20 + 500; everything is credited *)
Example C22_example :
  match mf_pay_fees sp_chargef_go sp_sharef_go mf_splitf_go mf_witness_gn mf_witness_bk 100 7
          (Some (mf_witness_node 100 50)) true [mf_witness_node 200 60] [] [[]] with
  | SpOk (Some m, [s]) => sp_total_rewards (nd_sp m) = 520 /\ sp_total_rewards (nd_sp s) = 520
  | _ => False
  end /\
  mf_pay_fees sp_chargef_go sp_sharef_go mf_splitf_go mf_witness_gn mf_witness_bk 101 7
          (Some (mf_witness_node 100 50)) true [mf_witness_node 200 60] [] [[]] = SpErr.
Proof. vm_compute. repeat split; reflexivity. Qed.
