(* Lemmas for C18 (bridge mint). *)
From ZC Require Import Model.ZcnMint.
Open Scope Z_scope.

Lemma zm_mem_In : forall x l, zm_mem x l = true <-> In x l.
Proof.
  induction l as [|y tl IH]; cbn [zm_mem In]; [split; [discriminate|intros []]|].
  rewrite orb_true_iff, IH, Z.eqb_eq. tauto.
Qed.

Lemma zm_ids_In : forall id sigs, In id (zm_ids sigs) <-> In id (map zs_id sigs).
Proof.
  induction sigs as [|s tl IH]; cbn [zm_ids map In]; [tauto|].
  destruct (zm_mem (zs_id s) (zm_ids tl)) eqn:E.
  - apply zm_mem_In in E. rewrite IH. split; [tauto|]. intros [<-|H]; [apply IH; exact E|exact H].
  - cbn [In]. rewrite IH. tauto.
Qed.

Lemma zm_ids_NoDup : forall sigs, NoDup (zm_ids sigs).
Proof.
  induction sigs as [|s tl IH]; cbn [zm_ids]; [constructor|].
  destruct (zm_mem (zs_id s) (zm_ids tl)) eqn:E; [exact IH|].
  constructor; [|exact IH]. intros H. apply zm_mem_In in H. congruence.
Qed.

Lemma zm_last_res_spec : forall id sigs acc r,
  fold_left (fun acc s => if zs_id s =? id then zs_res s else acc) sigs acc = r ->
  r = acc \/ exists s, In s sigs /\ zs_id s = id /\ zs_res s = r.
Proof.
  induction sigs as [|s tl IH]; intros acc r H; cbn [fold_left] in H; [left; auto|].
  destruct (IH _ _ H) as [Hacc|(s' & Hin & Hid & Hr)].
  - destruct (zs_id s =? id) eqn:E; [|left; exact Hacc].
    right. exists s. split; [left; reflexivity|]. split; [apply Z.eqb_eq; exact E|auto].
  - right. exists s'. split; [right; exact Hin|auto].
Qed.

Lemma zm_firstn_In : forall (A : Type) n (l : list A) x, In x (firstn n l) -> In x l.
Proof.
  induction n as [|n IH]; intros l x H; [destruct H|]. destruct l as [|y tl]; [destruct H|].
  cbn [firstn In] in *. destruct H as [->|H]; [left; reflexivity|right; apply IH; exact H].
Qed.

Lemma zm_insert_In : forall x y l, In y (zm_insert x l) <-> y = x \/ In y l.
Proof.
  induction l as [|z tl IH]; cbn [zm_insert In]; [intuition|].
  destruct (x <=? z); cbn [In]; [intuition|]. rewrite IH. intuition.
Qed.

Lemma zm_sort_In : forall y l, In y (zm_sort l) <-> In y l.
Proof.
  induction l as [|x tl IH]; cbn [zm_sort In]; [tauto|]. rewrite zm_insert_In, IH. intuition.
Qed.

(* the loop is a plain check of every id *)
Lemma zm_verify_loop_all : forall reg sigs ids,
  zm_verify_loop reg sigs ids = true ->
  forall id, In id ids -> id <> 0 /\ In id reg /\ zm_last_res id sigs = ZsValid.
Proof.
  induction ids as [|x tl IH]; intros Hv id Hin; [destruct Hin|].
  cbn [zm_verify_loop] in Hv.
  destruct ((x =? 0) || negb (zm_mem x reg)) eqn:E; [discriminate|].
  apply orb_false_iff in E. destruct E as [E0 Er]. apply Z.eqb_neq in E0. apply negb_false_iff, zm_mem_In in Er.
  destruct (zm_last_res x sigs) eqn:ER; try discriminate.
  destruct Hin as [<-|Hin]; [auto|]. apply IH; auto.
Qed.

(* the entries mint looks at: the first numAuth when more are supplied *)
Definition zm_counted (st : zm_state) (p : zm_payload) : list zm_sig :=
  if zm_count st <? Z.of_nat (length (zp_sigs p)) then firstn (Z.to_nat (zm_count st)) (zp_sigs p) else zp_sigs p.

Lemma zm_counted_In : forall st p s, In s (zm_counted st p) -> In s (zp_sigs p).
Proof. intros st p s. unfold zm_counted. destruct (_ <? _); [apply zm_firstn_In|auto]. Qed.

(* everything a successful mint establishes *)
Lemma zm_mint_minted : forall st client p pick st' tr paid cred,
  zm_mint st client p pick = (st', ZmMinted tr paid cred) ->
  let th := zm_threshold (zm_pbits st) (zm_count st) in
  let sigs := zm_counted st p in
  let share := zm_max_fee st / Z.of_nat (length sigs) in
  zp_sigs p <> [] /\ zm_count st <> 0 /\ th <= Z.of_nat (length (zp_sigs p)) /\
  zp_receiver p = client /\ zm_min_mint st <= zp_amount p /\ zm_max_fee st <= zp_amount p /\
  zm_mem (zp_nonce p) (zm_minted st) = false /\
  zm_verify (zm_reg st) sigs = true /\ th <= Z.of_nat (length (zm_ids sigs)) /\
  tr = [(zm_wallet, client, zp_amount p - share)] /\ share <= zp_amount p /\ paid = pick /\
  zm_mem pick (map zs_id sigs) = true /\
  exists pool, zm_pool_get pick (zm_pools st) = Some pool /\
    cred = (if (share =? 0) || (zl_stake pool <? zm_min_stake st) then 0 else share) /\
    st' = {| zm_pbits := zm_pbits st; zm_min_mint := zm_min_mint st; zm_max_fee := zm_max_fee st; zm_min_stake := zm_min_stake st;
             zm_count := zm_count st; zm_reg := zm_reg st;
             zm_pools := zm_pool_set pick {| zl_stake := zl_stake pool; zl_credited := zl_credited pool + cred |} (zm_pools st);
             zm_minted := zp_nonce p :: zm_minted st |}.
Proof.
  intros st client p pick st' tr paid cred H. unfold zm_mint in H. fold (zm_counted st p) in H.
  destruct (Z.of_nat (length (zp_sigs p)) =? 0) eqn:E1; [discriminate|].
  destruct (zm_count st =? 0) eqn:E2; [discriminate|].
  destruct (Z.of_nat (length (zp_sigs p)) <? zm_threshold (zm_pbits st) (zm_count st)) eqn:E3; [discriminate|].
  destruct (negb (zp_receiver p =? client)) eqn:E4; [discriminate|].
  destruct ((zp_amount p <? zm_min_mint st) || (zp_amount p <? zm_max_fee st)) eqn:E5; [discriminate|].
  destruct (zm_mem (zp_nonce p) (zm_minted st)) eqn:E6; [discriminate|].
  destruct (negb (zm_verify (zm_reg st) (zm_counted st p))) eqn:E7; [discriminate|].
  destruct (Z.of_nat (length (zm_ids (zm_counted st p))) <? zm_threshold (zm_pbits st) (zm_count st)) eqn:E8; [discriminate|].
  destruct (zp_amount p <? zm_max_fee st / Z.of_nat (length (zm_counted st p))) eqn:E9; [discriminate|].
  destruct (negb (zm_mem pick (map zs_id (zm_counted st p)))) eqn:E10; [discriminate|].
  destruct (zm_pool_get pick (zm_pools st)) as [pool|] eqn:E11; [|discriminate].
  inversion H; subst. clear H.
  apply Z.eqb_neq in E1, E2. apply Z.ltb_ge in E3, E8, E9.
  apply negb_false_iff in E4, E7, E10. apply Z.eqb_eq in E4.
  apply orb_false_iff in E5. destruct E5 as [E5a E5b]. apply Z.ltb_ge in E5a, E5b.
  repeat split; auto.
  - intros Hnil. rewrite Hnil in E1. cbn in E1. lia.
  - exists pool. repeat split; reflexivity.
Qed.

(* quorum: a mint implies threshold-many distinct registered authorizers, each with a valid
   signature in the payload *)
Lemma zm_quorum : forall st client p pick st' tr paid cred,
  zm_mint st client p pick = (st', ZmMinted tr paid cred) ->
  exists ids, NoDup ids /\ zm_threshold (zm_pbits st) (zm_count st) <= Z.of_nat (length ids) /\
    forall id, In id ids -> id <> 0 /\ In id (zm_reg st) /\
      exists s, In s (zp_sigs p) /\ zs_id s = id /\ zs_res s = ZsValid.
Proof.
  intros st client p pick st' tr paid cred H.
  destruct (zm_mint_minted _ _ _ _ _ _ _ _ H) as (_ & _ & _ & _ & _ & _ & _ & Hv & Hth & _).
  exists (zm_ids (zm_counted st p)). split; [apply zm_ids_NoDup|]. split; [exact Hth|].
  intros id Hin.
  destruct (zm_verify_loop_all _ _ _ Hv id (proj2 (zm_sort_In _ _) Hin)) as (H0 & Hr & Hres).
  split; [exact H0|]. split; [exact Hr|].
  unfold zm_last_res in Hres.
  destruct (zm_last_res_spec id (zm_counted st p) ZsError _ Hres) as [He|(s & Hs & Hid & Hr2)]; [discriminate|].
  exists s. split; [apply (zm_counted_In st); exact Hs|]. split; [exact Hid|exact Hr2].
Qed.

(* 0.7 as a float64 bit pattern *)
Definition zm_p07 : Z := 4604480259023595110.

(* the payload that minted before verifySignatures was repaired (one registered authorizer, the only
   entry a well-formed signature that does not verify) is refused *)
Definition zm_wit_state : zm_state := fst (zm_step (zm_init zm_p07 10 6 0) (ZmRegister true 1)).
Definition zm_wit_payload : zm_payload :=
  {| zp_receiver := 100; zp_amount := 50; zp_nonce := 1; zp_sigs := [{| zs_id := 1; zs_res := ZsInvalid |}] |}.

Lemma zm_wit_refused : snd (zm_mint zm_wit_state 100 zm_wit_payload 1) = ZmFail.
Proof. vm_compute. reflexivity. Qed.

(* the submitter is the receiver; the receiver gets amount - share from the contract wallet, with
   share = max_fee / number of counted entries; the share goes to one of the listed signers *)
Lemma zm_mint_effect : forall st client p pick st' tr paid cred,
  zm_mint st client p pick = (st', ZmMinted tr paid cred) ->
  let share := zm_max_fee st / Z.of_nat (length (zm_counted st p)) in
  zp_receiver p = client /\
  tr = [(zm_wallet, client, zp_amount p - share)] /\ share <= zp_amount p /\
  zm_min_mint st <= zp_amount p /\
  In paid (map zs_id (zm_counted st p)) /\ In paid (zm_reg st) /\
  (cred = share \/ cred = 0) /\
  exists pool, zm_pool_get paid (zm_pools st) = Some pool /\
    (cred = 0 <-> share = 0 \/ zl_stake pool < zm_min_stake st) /\
    zm_pool_get paid (zm_pools st') = Some {| zl_stake := zl_stake pool; zl_credited := zl_credited pool + cred |} /\
    (forall id, id <> paid -> zm_pool_get id (zm_pools st') = zm_pool_get id (zm_pools st)) /\
    zm_reg st' = zm_reg st /\ zm_count st' = zm_count st.
Proof.
  intros st client p pick st' tr paid cred H share.
  destruct (zm_mint_minted _ _ _ _ _ _ _ _ H) as (_ & _ & _ & Hr & Hmin & _ & _ & Hv & _ & Htr & Hsh & Hpaid & Hmem & pool & Hpool & Hcred & Hst).
  subst paid. apply zm_mem_In in Hmem.
  assert (Hreg : In pick (zm_reg st)).
  { apply (zm_verify_loop_all _ _ _ Hv pick). apply zm_sort_In, zm_ids_In. exact Hmem. }
  fold share in Hcred, Htr, Hsh.
  repeat split; auto.
  - rewrite Hcred. destruct ((share =? 0) || (zl_stake pool <? zm_min_stake st)); auto.
  - exists pool. split; [exact Hpool|]. split; [|split; [|split; [|split]]].
    + rewrite Hcred. destruct (share =? 0) eqn:E1; cbn [orb].
      * apply Z.eqb_eq in E1. split; auto.
      * apply Z.eqb_neq in E1. destruct (zl_stake pool <? zm_min_stake st) eqn:E2.
        -- apply Z.ltb_lt in E2. split; auto.
        -- apply Z.ltb_ge in E2. split; [intros; contradiction|intros [?|?]; lia].
    + rewrite Hst. cbn [zm_pools]. clear. induction (zm_pools st) as [|[k x] tl IH]; cbn [zm_pool_set zm_pool_get].
      * rewrite Z.eqb_refl. reflexivity.
      * destruct (k =? pick) eqn:E; cbn [zm_pool_get]; rewrite E; auto.
    + intros id Hne. rewrite Hst. cbn [zm_pools]. clear -Hne. induction (zm_pools st) as [|[k x] tl IH]; cbn [zm_pool_set zm_pool_get].
      * destruct (pick =? id) eqn:E; [apply Z.eqb_eq in E; congruence|reflexivity].
      * destruct (k =? pick) eqn:E; cbn [zm_pool_get].
        -- apply Z.eqb_eq in E. subst k. destruct (pick =? id) eqn:E2; [apply Z.eqb_eq in E2; congruence|reflexivity].
        -- destruct (k =? id); auto.
    + rewrite Hst. reflexivity.
    + rewrite Hst. reflexivity.
Qed.

(* a refused request changes nothing *)
Lemma zm_fail_noop : forall st o st1, zm_step st o = (st1, ZmFail) -> st1 = st.
Proof.
  intros st o st1 H. destruct o as [owner id|allowed id|id amount|client [p|] pick]; cbn [zm_step] in H.
  - destruct (negb owner || zm_mem id (zm_reg st)); [inversion H; reflexivity|].
    destruct (zm_pool_get id (zm_pools st)); inversion H; reflexivity.
  - destruct (_ || _ || _); inversion H; reflexivity.
  - destruct (zm_pool_get id (zm_pools st)); inversion H; reflexivity.
  - unfold zm_mint in H. cbv zeta in H.
    repeat match type of H with
    | (if ?c then _ else _) = _ => destruct c; [inversion H; subst; try reflexivity|]
    end.
    destruct (zm_pool_get pick (zm_pools st)); inversion H; reflexivity.
  - inversion H; reflexivity.
Qed.

(* ---------- each nonce mints at most once, over any history ---------- *)
Fixpoint zm_success_nonces (ops : list zm_op) (outs : list zm_out) : list Z :=
  match ops, outs with
  | ZmMint _ (Some p) _ :: ops', ZmMinted _ _ _ :: outs' => zp_nonce p :: zm_success_nonces ops' outs'
  | _ :: ops', _ :: outs' => zm_success_nonces ops' outs'
  | _, _ => []
  end.

Lemma zm_run_cons : forall st o tl,
  zm_run st (o :: tl) =
  (fst (zm_run (fst (zm_step st o)) tl), snd (zm_step st o) :: snd (zm_run (fst (zm_step st o)) tl)).
Proof.
  intros. cbn [zm_run]. destruct (zm_step st o) as [st1 out]. cbn [fst snd]. destruct (zm_run st1 tl); reflexivity.
Qed.

Lemma zm_step_minted_mono : forall st o k, zm_mem k (zm_minted st) = true ->
  zm_mem k (zm_minted (fst (zm_step st o))) = true.
Proof.
  intros st o k Hk. destruct (zm_step st o) as [st1 out] eqn:E. cbn [fst].
  destruct out.
  - destruct o as [owner id|allowed id|id amount|client [p|] pick]; cbn [zm_step] in E.
    + destruct (negb owner || _); [inversion E|]. destruct (zm_pool_get _ _); inversion E; subst; exact Hk.
    + destruct (_ || _ || _); inversion E; subst; exact Hk.
    + destruct (zm_pool_get _ _); inversion E; subst; exact Hk.
    + unfold zm_mint in E. cbv zeta in E.
      repeat match type of E with (if ?c then _ else _) = _ => destruct c; [inversion E|] end.
      destruct (zm_pool_get pick _); inversion E.
    + inversion E.
  - destruct o as [owner id|allowed id|id amount|client [p|] pick]; cbn [zm_step] in E.
    + destruct (negb owner || _); [inversion E|]. destruct (zm_pool_get _ _); inversion E.
    + destruct (_ || _ || _); inversion E.
    + destruct (zm_pool_get _ _); inversion E.
    + destruct (zm_mint_minted _ _ _ _ _ _ _ _ E) as (_ & _ & _ & _ & _ & _ & _ & _ & _ & _ & _ & _ & _ & pool & _ & _ & Hst).
      rewrite Hst. cbn [zm_minted zm_mem]. rewrite Hk. apply orb_true_r.
    + inversion E.
  - apply zm_fail_noop in E. subst. exact Hk.
  - destruct o as [owner id|allowed id|id amount|client [p|] pick]; cbn [zm_step] in E.
    + destruct (negb owner || _); [inversion E|]. destruct (zm_pool_get _ _); inversion E.
    + destruct (_ || _ || _); inversion E.
    + destruct (zm_pool_get _ _); inversion E.
    + unfold zm_mint in E. cbv zeta in E.
      repeat match type of E with (if ?c then _ else _) = _ => destruct c; [inversion E; subst; try exact Hk|] end.
      destruct (zm_pool_get pick _); inversion E.
    + inversion E.
Qed.

Lemma zm_nonce_once_gen : forall ops st,
  let L := zm_success_nonces ops (snd (zm_run st ops)) in
  NoDup L /\ forall k, In k L -> zm_mem k (zm_minted st) = false.
Proof.
  induction ops as [|o tl IH]; intros st; [split; [constructor|intros k []]|].
  rewrite zm_run_cons. cbn [snd]. destruct (IH (fst (zm_step st o))) as [IH1 IH2].
  assert (Hmono : forall k, zm_mem k (zm_minted (fst (zm_step st o))) = false -> zm_mem k (zm_minted st) = false).
  { intros k Hk. destruct (zm_mem k (zm_minted st)) eqn:E; [|reflexivity].
    rewrite (zm_step_minted_mono st o k E) in Hk. discriminate. }
  destruct o as [owner id|allowed id|id amount|client [p|] pick];
    try (cbn [zm_success_nonces]; split; [exact IH1|intros k Hk; apply Hmono, IH2, Hk]).
  destruct (zm_step st (ZmMint client (Some p) pick)) as [st1 out] eqn:E. cbn [fst snd] in *.
  destruct out; cbn [zm_success_nonces]; try (split; [exact IH1|intros k Hk; apply Hmono, IH2, Hk]).
  cbn [zm_step] in E.
  destruct (zm_mint_minted _ _ _ _ _ _ _ _ E) as (_ & _ & _ & _ & _ & _ & Hfresh & _ & _ & _ & _ & _ & _ & pool & _ & _ & Hst).
  split.
  - constructor; [|exact IH1]. intros Hin. specialize (IH2 _ Hin). rewrite Hst in IH2. cbn [zm_minted zm_mem] in IH2.
    rewrite Z.eqb_refl in IH2. discriminate.
  - intros k [<-|Hk]; [exact Hfresh|apply Hmono, IH2, Hk].
Qed.

Lemma zm_nonce_once : forall pbits min_mint max_fee min_stake ops,
  NoDup (zm_success_nonces ops (snd (zm_run (zm_init pbits min_mint max_fee min_stake) ops))).
Proof. intros. apply (zm_nonce_once_gen ops (zm_init pbits min_mint max_fee min_stake)). Qed.
