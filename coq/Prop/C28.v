(* C28: Synced state changes reproduce the computed state.
   Only statements; each is closed by [exact] of a lemma in Proof/StateChange.v.
   The trie is an abstract content-addressed node store: [H] hashes a node, [children] lists the
   hashes it refers to; hypotheses: the two equality tests decide equality and H is injective
   (collision-free hash).  [sc_sync] = decode (ComputeProperties) then ApplyBlockStateChange. *)
From ZC Require Import Model.StateChange Proof.StateChange Gen.StateChangeApply Proof.StateChangeSrc.

Section C28.
  Variables (node hash bhash : Type).
  Variable heqb : hash -> hash -> bool.
  Variable bheqb : bhash -> bhash -> bool.
  Variable H : node -> hash.
  Variable children : node -> list hash.
  Hypothesis heqb_spec : forall a b, heqb a b = true <-> a = b.
  Hypothesis bheqb_spec : forall a b, bheqb a b = true <-> a = b.
  Hypothesis H_inj : forall a b, H a = H b -> a = b.

  (* The change set published for an executed block (its new nodes: not empty, no node twice,
     each reachable from the new root through new nodes; the block's hash, root and count),
     applied over the previous node db, is accepted and gives the executed state itself. *)
  Theorem C28_honest_change_reproduces :
    forall prev_db bh root new b,
      new <> [] -> NoDup (map H new) ->
      (forall n, In n new -> sc_reach_d node hash heqb H children new root (length new) n) ->
      (exists r, In r new /\ H r = root) ->
      sb_hash b = bh -> sb_state b = root -> sb_count b = length new ->
      sc_sync node hash bhash heqb bheqb H children prev_db b (sc_new_change node hash bhash bh root new)
      = ScOk (new ++ prev_db) root.
  Proof. exact (sc_honest_change_reproduces node hash bhash heqb bheqb H children heqb_spec bheqb_spec H_inj). Qed.

  (* Lifted to a chain of any length: blocks 1..K all obtained by sync, each change set applied
     over what the previous apply produced (nothing persisted in between), give the executed db:
     the new nodes of every block layered over the previous db. *)
  Theorem C28_honest_chain_reproduces :
    forall l prev_db,
      Forall (fun x => sc_honest node hash bhash heqb H children
                         (fst (fst x)) (snd (fst x)) (snd (snd x)) (fst (snd x))) l ->
      sc_sync_chain node hash bhash heqb bheqb H children prev_db
        (map (fun x => (fst (snd x), sc_new_change node hash bhash (fst (fst x)) (snd (fst x)) (snd (snd x)))) l)
      = Some (fold_left (fun db x => snd (snd x) ++ db) l prev_db).
  Proof. exact (sc_honest_chain node hash bhash heqb bheqb H children heqb_spec bheqb_spec H_inj). Qed.

  (* A change set is accepted only if block hash, declared state root and node count all match
     and it passed validation; then the block's state is the set layered over the local db. *)
  Theorem C28_accepted_only_if_all_checks_pass :
    forall local b cs db' r,
      sc_sync node hash bhash heqb bheqb H children local b cs = ScOk db' r ->
      sb_hash b = sc_blk cs /\ sb_state b = sc_root cs /\ length (sc_nodes cs) = sb_count b /\
      sc_valid node hash heqb H children (sc_root cs) (sc_nodes cs) = true /\
      db' = sc_nodes cs ++ local /\ r = sb_state b.
  Proof. exact (sc_sync_ok_inv node hash bhash heqb bheqb H children heqb_spec bheqb_spec). Qed.

  (* Tampered block hash, declared root or count: rejected with the specific error, before
     anything is merged (a rejection carries no state: the local state is untouched). *)
  Theorem C28_wrong_block_hash_rejected :
    forall local b cs computed, sb_hash b <> sc_blk cs ->
      sc_apply node hash bhash heqb bheqb local b cs computed = ScErr EBlockHash.
  Proof. exact (sc_reject_block_hash node hash bhash heqb bheqb bheqb_spec). Qed.

  Theorem C28_wrong_state_root_rejected :
    forall local b cs computed, sb_hash b = sc_blk cs -> sb_state b <> sc_root cs ->
      sc_apply node hash bhash heqb bheqb local b cs computed = ScErr EStateHash.
  Proof. exact (sc_reject_state_hash node hash bhash heqb bheqb heqb_spec bheqb_spec). Qed.

  Theorem C28_wrong_count_rejected :
    forall local b cs, sb_hash b = sc_blk cs -> sb_state b = sc_root cs ->
      length (sc_nodes cs) <> sb_count b ->
      sc_apply node hash bhash heqb bheqb local b cs true = ScErr EMalformed.
  Proof. exact (sc_reject_count node hash bhash heqb bheqb heqb_spec bheqb_spec). Qed.

  Theorem C28_invalid_set_rejected :
    forall local b cs, sc_valid node hash heqb H children (sc_root cs) (sc_nodes cs) = false ->
      sc_sync node hash bhash heqb bheqb H children local b cs = ScErr EInvalid.
  Proof. exact (sc_reject_invalid node hash bhash heqb bheqb H children). Qed.

  Theorem C28_rejected_sets_nothing :
    forall local b cs,
      (forall db r, sc_sync node hash bhash heqb bheqb H children local b cs <> ScOk db r) ->
      sc_sync node hash bhash heqb bheqb H children local b cs = ScNoChange \/
      exists e, sc_sync node hash bhash heqb bheqb H children local b cs = ScErr e.
  Proof. exact (sc_sync_rejected_untouched node hash bhash heqb bheqb H children). Qed.

  (* Dropped, extra or altered nodes with the right root and count: whatever is accepted
     contains only nodes of the state the block declares ([dbH]: any complete copy of it), and
     every node that can be read from the resulting state is a node of that state ... *)
  Theorem C28_accepted_integrity :
    forall local b cs db' r dbH,
      sc_sync node hash bhash heqb bheqb H children local b cs = ScOk db' r ->
      sc_complete node hash heqb H children dbH (sb_state b) ->
      r = sb_state b /\
      (forall n, In n (sc_nodes cs) -> sc_reach node hash heqb H children dbH r n) /\
      (forall n, sc_reach node hash heqb H children db' r n -> sc_reach node hash heqb H children dbH r n).
  Proof. exact (sc_accepted_integrity node hash bhash heqb bheqb H children heqb_spec bheqb_spec H_inj). Qed.

  (* ... and if no needed node is missing it is exactly that state. *)
  Theorem C28_accepted_complete_is_declared_state :
    forall local b cs db' r dbH,
      sc_sync node hash bhash heqb bheqb H children local b cs = ScOk db' r ->
      sc_complete node hash heqb H children dbH (sb_state b) ->
      sc_complete node hash heqb H children db' r ->
      forall n, sc_reach node hash heqb H children db' r n <-> sc_reach node hash heqb H children dbH r n.
  Proof. exact (sc_accepted_complete_equal node hash bhash heqb bheqb H children heqb_spec bheqb_spec H_inj). Qed.
  (* The proposed repair (after MergeDB every node a new node refers to must be available, else the
     set is malformed): an accepted change set then gives a complete state, every key of which can
     be read, provided the local db holds whole states; honest change sets still pass. *)
  Theorem C28_repaired_accepted_is_complete :
    forall local b cs db' r,
      sc_sync_fix node hash bhash heqb bheqb H children local b cs = ScOk db' r ->
      sc_closed node hash heqb H children local ->
      sc_complete node hash heqb H children db' r.
  Proof. exact (sc_fix_accepted_complete node hash bhash heqb bheqb H children heqb_spec bheqb_spec H_inj). Qed.

  Theorem C28_repaired_honest_change_reproduces :
    forall prev_db bh root new b,
      new <> [] -> NoDup (map H new) ->
      (forall n, In n new -> sc_reach_d node hash heqb H children new root (length new) n) ->
      (exists r, In r new /\ H r = root) ->
      sb_hash b = bh -> sb_state b = root -> sb_count b = length new ->
      sc_complete node hash heqb H children (new ++ prev_db) root ->
      sc_sync_fix node hash bhash heqb bheqb H children prev_db b (sc_new_change node hash bhash bh root new)
      = ScOk (new ++ prev_db) root.
  Proof. exact (sc_fix_honest node hash bhash heqb bheqb H children heqb_spec bheqb_spec H_inj). Qed.

  (* For the apply that the source tree contains (sc_refs_checked is regenerated from
     chaincore/block/entity.go on every run): integrity always; completeness of what is accepted
     when the source has the reference check. *)
  Theorem C28_source_apply_integrity :
    forall local b cs db' r dbH,
      sc_sync_src node hash bhash heqb bheqb H children local b cs = ScOk db' r ->
      sc_complete node hash heqb H children dbH (sb_state b) ->
      r = sb_state b /\
      (forall n, In n (sc_nodes cs) -> sc_reach node hash heqb H children dbH r n) /\
      (forall n, sc_reach node hash heqb H children db' r n -> sc_reach node hash heqb H children dbH r n).
  Proof. exact (sc_src_integrity node hash bhash heqb bheqb H children heqb_spec bheqb_spec H_inj). Qed.

  Theorem C28_source_apply_complete :
    forall local b cs db' r,
      sc_sync_src node hash bhash heqb bheqb H children local b cs = ScOk db' r ->
      sc_closed node hash heqb H children local ->
      if sc_refs_checked then sc_complete node hash heqb H children db' r else True.
  Proof. exact (sc_src_complete node hash bhash heqb bheqb H children heqb_spec bheqb_spec H_inj). Qed.
End C28.

(* The full statement: whatever is accepted is a complete state (every key of the executed state
   can be read), for every node store with decidable, injective hashing. *)
Definition C28_full_statement : Prop :=
  forall (node hash bhash : Type) (heqb : hash -> hash -> bool) (bheqb : bhash -> bhash -> bool)
         (H : node -> hash) (children : node -> list hash),
    (forall a b, heqb a b = true <-> a = b) -> (forall a b, bheqb a b = true <-> a = b) ->
    (forall a b, H a = H b -> a = b) ->
    forall local b cs db' r,
      sc_sync node hash bhash heqb bheqb H children local b cs = ScOk db' r ->
      sc_closed node hash heqb H children local ->
      (exists dbH, sc_complete node hash heqb H children dbH (sb_state b)) ->
      sc_complete node hash heqb H children db' r.

(* It is false of ApplyBlockStateChange as found: a change set with the right block hash, root
   and count in which a new node is withheld and replaced by an old node that the new ones refer
   to passes every check; the block is marked synced with a state whose withheld part cannot be
   read (witness: previous state 1 -> {2,3}, new state 4 -> {2,5}, change set {4, 2}). *)
Theorem C28_full_statement_refuted : ~ C28_full_statement.
Proof. exact sc_full_refuted. Qed.

Print Assumptions C28_honest_change_reproduces.
Print Assumptions C28_honest_chain_reproduces.
Print Assumptions C28_repaired_accepted_is_complete.
Print Assumptions C28_repaired_honest_change_reproduces.
Print Assumptions C28_source_apply_integrity.
Print Assumptions C28_source_apply_complete.
Print Assumptions C28_full_statement_refuted.
Print Assumptions C28_accepted_only_if_all_checks_pass.
Print Assumptions C28_wrong_block_hash_rejected.
Print Assumptions C28_wrong_state_root_rejected.
Print Assumptions C28_wrong_count_rejected.
Print Assumptions C28_invalid_set_rejected.
Print Assumptions C28_rejected_sets_nothing.
Print Assumptions C28_accepted_integrity.
Print Assumptions C28_accepted_complete_is_declared_state.

(* Non-vacuity on a concrete store (node = (hash, children), H = fst): previous state
   1 -> {2,3}; the block rewrites leaf 3 into 5, giving new nodes 4 -> {2,5} and 5.  The honest
   set is accepted; dropping 5, altering it into 6, and a wrong count are rejected. *)
Example C28_example :
  let sync := sc_sync (Z * list Z) Z Z Z.eqb Z.eqb fst snd in
  let prev := [(1, [2; 3]); (2, []); (3, [])]%Z in
  let blk := {| sb_hash := 77; sb_state := 4; sb_count := 2; sb_prev_state := Some 1 |}%Z in
  sync prev blk {| sc_blk := 77; sc_root := 4; sc_nodes := [(4, [2; 5]); (5, [])] |}%Z
    = ScOk ([(4, [2; 5]); (5, [])] ++ prev)%Z 4%Z /\
  sync prev blk {| sc_blk := 77; sc_root := 4; sc_nodes := [(4, [2; 5])] |}%Z = ScErr EMalformed /\
  sync prev blk {| sc_blk := 77; sc_root := 4; sc_nodes := [(4, [2; 5]); (6, [])] |}%Z = ScErr EInvalid /\
  sync prev blk {| sc_blk := 78; sc_root := 4; sc_nodes := [(4, [2; 5]); (5, [])] |}%Z = ScErr EBlockHash /\
  sync prev blk {| sc_blk := 77; sc_root := 5; sc_nodes := [(4, [2; 5]); (5, [])] |}%Z = ScErr EInvalid /\
  sync prev {| sb_hash := 77; sb_state := 4; sb_count := 3; sb_prev_state := Some 1 |}%Z
       {| sc_blk := 77; sc_root := 4; sc_nodes := [(4, [2; 5]); (5, [])] |}%Z = ScErr EMalformed.
Proof. vm_compute. repeat split; reflexivity. Qed.
