// Package conch builds real miner chains (miner.Chain over chain.Chain) for property C45:
// block generation from an in-memory transaction pool on one chain instance and block
// verification on a second instance that holds the same previous state.
//
// Real: generateBlock / txnIterHandler / txnProcessor / validateTransaction / buildInTxns /
// VerifyBlock / ValidateTransactions / ComputeState / updateState, the MPT, ed25519 keys and
// signatures of the miner and of every client, the storage contract (built-in transactions).
// Stubbed: the redis transaction/client store (an in-memory datastore.Store that iterates the
// pool in the order given), the network (never reached: all state is local), the BLS aggregate
// signature pass (client scheme is ed25519, so ValidateTransactions verifies every signature
// one by one), timers (generous limits, never reached).
package conch

import (
	"bytes"
	"context"
	"crypto/ed25519"
	"crypto/sha256"
	"encoding/hex"
	"errors"
	"os"
	"path/filepath"
	"strconv"
	"strings"
	"sync"
	"time"

	"0chain.net/chaincore/block"
	"0chain.net/chaincore/chain"
	cstate "0chain.net/chaincore/chain/state"
	"0chain.net/chaincore/client"
	"0chain.net/chaincore/node"
	"0chain.net/chaincore/round"
	"0chain.net/chaincore/smartcontract"
	"0chain.net/chaincore/state"
	"0chain.net/chaincore/transaction"
	"0chain.net/core/common"
	"0chain.net/core/config"
	"0chain.net/core/datastore"
	"0chain.net/core/encryption"
	"0chain.net/core/memorystore"
	"0chain.net/core/viper"
	"0chain.net/miner"
	"0chain.net/smartcontract/minersc"
	"0chain.net/smartcontract/storagesc"
	"github.com/0chain/common/core/currency"
	"github.com/0chain/common/core/statecache"
	"github.com/0chain/common/core/util"
	"github.com/gomodule/redigo/redis"
	"net/url"
	"verifharness/sc"
)

// ---------- in-memory store ----------

// MemStore implements datastore.Store for the "txn" and "client" entities. IterateCollection hands
// out Pool in slice order (the order is an input of the generation model).
type MemStore struct {
	mu      sync.Mutex
	Pool    []*transaction.Transaction
	Clients map[string]string // client id -> public key
	Deleted []string
}

// SetPool replaces the pool.
func (s *MemStore) SetPool(p []*transaction.Transaction) {
	s.mu.Lock()
	defer s.mu.Unlock()
	s.Pool = p
	s.Deleted = nil
}

func (s *MemStore) Read(context.Context, datastore.Key, datastore.Entity) error {
	return errors.New("verif store: not found")
}
func (s *MemStore) Write(context.Context, datastore.Entity) error      { return nil }
func (s *MemStore) InsertIfNE(context.Context, datastore.Entity) error { return nil }
func (s *MemStore) Delete(context.Context, datastore.Entity) error     { return nil }
func (s *MemStore) Merge(context.Context, datastore.Entity) error      { return nil }
func (s *MemStore) MultiRead(_ context.Context, md datastore.EntityMetadata, keys []datastore.Key, es []datastore.Entity) error {
	s.mu.Lock()
	defer s.mu.Unlock()
	if md.GetName() == "client" {
		for i, k := range keys {
			if pk, ok := s.Clients[k]; ok {
				c := es[i].(*client.Client)
				c.ID = k
				_ = c.SetPublicKey(pk)
			}
		}
	}
	return nil
}
func (s *MemStore) MultiWrite(context.Context, datastore.EntityMetadata, []datastore.Entity) error {
	return nil
}
func (s *MemStore) MultiDelete(_ context.Context, _ datastore.EntityMetadata, es []datastore.Entity) error {
	s.mu.Lock()
	defer s.mu.Unlock()
	for _, e := range es {
		s.Deleted = append(s.Deleted, e.GetKey())
	}
	return nil
}
func (s *MemStore) AddToCollection(context.Context, datastore.CollectionEntity) error { return nil }
func (s *MemStore) MultiAddToCollection(context.Context, datastore.EntityMetadata, []datastore.Entity) error {
	return nil
}
func (s *MemStore) DeleteFromCollection(context.Context, datastore.CollectionEntity) error {
	return nil
}
func (s *MemStore) MultiDeleteFromCollection(context.Context, datastore.EntityMetadata, []datastore.Entity) error {
	return nil
}
func (s *MemStore) GetCollectionSize(context.Context, datastore.EntityMetadata, string) int64 {
	return int64(len(s.Pool))
}
func (s *MemStore) IterateCollection(ctx context.Context, _ datastore.EntityMetadata, _ string, h datastore.CollectionIteratorHandler) error {
	s.mu.Lock()
	pool := append([]*transaction.Transaction{}, s.Pool...)
	s.mu.Unlock()
	for _, t := range pool {
		if err := ctx.Err(); err != nil {
			return err
		}
		proceed, err := h(ctx, t)
		if err != nil {
			return err
		}
		if !proceed {
			break
		}
	}
	return nil
}

// ---------- script contract ----------

// The script contract has functions "ok_<k>" (succeeds, output "ok") and "fail_<k>" (returns the
// chargeable error "fl"); both cost k. Outputs have a fixed length of 2 so that the byte accounting
// of the generator can be modelled without the output text. Any other name found in CostTable costs
// what the table says and succeeds. Names outside the table get the generic handler's MaxInt.
type scriptSC struct {
	mu   sync.Mutex
	Cost map[string]int // lower-cased function name -> cost
}

var ScriptAddress = encryption.Hash("verif conc script contract")
var theScript = &scriptSC{Cost: map[string]int{}}

func (s *scriptSC) GetHandlerStats(context.Context, url.Values) (interface{}, error) { return nil, nil }
func (s *scriptSC) GetExecutionStats() map[string]interface{}                        { return map[string]interface{}{} }
func (s *scriptSC) GetName() string                                                  { return "verifconcscript" }
func (s *scriptSC) GetAddress() string                                               { return ScriptAddress }
func (s *scriptSC) GetCostTable(cstate.StateContextI) (map[string]int, error) {
	s.mu.Lock()
	defer s.mu.Unlock()
	m := make(map[string]int, len(s.Cost))
	for k, v := range s.Cost {
		m[k] = v
	}
	return m, nil
}
func (s *scriptSC) Execute(t *transaction.Transaction, fn string, _ []byte, _ cstate.StateContextI) (string, error) {
	if strings.HasPrefix(fn, "fail_") {
		return "", errors.New("fl")
	}
	s.mu.Lock()
	_, known := s.Cost[strings.ToLower(fn)]
	s.mu.Unlock()
	if !known {
		return "", errors.New("un")
	}
	return "ok", nil
}

// SetScriptCosts replaces the script contract's cost table.
func SetScriptCosts(m map[string]int) {
	theScript.mu.Lock()
	defer theScript.mu.Unlock()
	theScript.Cost = map[string]int{}
	for k, v := range m {
		theScript.Cost[strings.ToLower(k)] = v
	}
}

// ---------- keys ----------

type Key struct {
	Scheme *encryption.ED25519Scheme
	Pub    string
	ID     string
}

// DetKey derives an ed25519 key pair from a label (deterministic across runs).
func DetKey(label string) *Key {
	seed := sha256.Sum256([]byte("verif conc key " + label))
	priv := ed25519.NewKeyFromSeed(seed[:])
	pub := priv.Public().(ed25519.PublicKey)
	s := encryption.NewED25519Scheme()
	if err := s.ReadKeys(strings.NewReader(hex.EncodeToString(pub) + "\n" + hex.EncodeToString(priv) + "\n")); err != nil {
		panic(err)
	}
	return &Key{Scheme: s, Pub: hex.EncodeToString(pub), ID: encryption.Hash([]byte(pub))}
}

// ---------- process-wide set-up ----------

var (
	once     sync.Once
	Store    = &MemStore{Clients: map[string]string{}}
	MinerKey *Key
	selfNode *node.Node
	minerMB  *block.MagicBlock
	scratch  string
)

// Cleanup removes the scratch state directory.
func Cleanup() {
	if scratch != "" {
		chain.CloseStateDB()
		_ = os.RemoveAll(scratch)
	}
}

func repoRoot() string {
	if r := os.Getenv("VERIF_REPO"); r != "" {
		return r
	}
	return "/repo"
}

// Setup initialises the process-wide parts of a miner: loggers, configuration, entity stores,
// self node with real keys, contracts.
func Setup() {
	once.Do(func() {
		// private working directory: the node writes ./log/*.log relative to the cwd
		_ = os.MkdirAll("/var/tmp/vs", 0o755)
		d, err := os.MkdirTemp("/var/tmp/vs", "conc-state-")
		if err != nil {
			panic(err)
		}
		scratch = d
		if err := os.Chdir(d); err != nil {
			panic(err)
		}
		sc.Init()
		viper.Set("server_chain.smart_contract.storage", true)
		viper.Set("server_chain.client.signature_scheme", "ed25519")
		config.SetupSmartContractConfig(filepath.Join(repoRoot(), "code/go/0chain.net/miner/testdata"))
		config.SetServerChainID(config.GetMainChainID())
		client.SetClientSignatureScheme("ed25519")
		transaction.SetTxnTimeout(600)

		MinerKey = DetKey("miner")
		selfNode = &node.Node{Type: node.NodeTypeMiner, Host: "", Port: 7071, Status: node.NodeStatusActive}
		node.Self = &node.SelfNode{}
		node.Self.Node = selfNode
		if err := node.Self.SetSignatureScheme(MinerKey.Scheme); err != nil {
			panic(err)
		}
		common.SetupRootContext(node.GetNodeContext())

		memorystore.AddPool("txndb", &redis.Pool{Dial: func() (redis.Conn, error) { return nil, errors.New("verif: no redis") }})
		memorystore.AddPool("clientdb", &redis.Pool{Dial: func() (redis.Conn, error) { return nil, errors.New("verif: no redis") }})
		transaction.SetupEntity(Store)
		client.SetupEntity(Store)
		block.SetupEntity(Store)
		block.SetupBlockSummaryEntity(Store)
		round.SetupEntity(Store)
		// chain.Chain keeps the round of the latest finalized block in the persistent node DB
		// (rocksdb): give it a scratch directory, removed by Cleanup.
		if err := os.MkdirAll(filepath.Join(d, "data/rocksdb/state"), 0o755); err != nil {
			panic(err)
		}
		chain.SetupEntity(Store, d)

		// the node status monitor is not running: drain its notification channel
		go func() {
			for range chain.UpdateNodes {
			}
		}()
		smartcontract.ContractMap[ScriptAddress] = theScript
		smartcontract.ContractMap[storagesc.ADDRESS] = storagesc.NewStorageSmartContract()
		smartcontract.ContractMap[minersc.ADDRESS] = minersc.NewMinerSmartContract()

		np := node.NewPool(node.NodeTypeMiner)
		if err := np.AddNode(selfNode); err != nil {
			panic(err)
		}
		minerMB = block.NewMagicBlock()
		minerMB.Miners = np
		minerMB.Sharders = node.NewPool(node.NodeTypeSharder)
		minerMB.Hash = minerMB.GetHash()
		Store.Clients[selfNode.GetKey()] = MinerKey.Pub
	})
}

// ---------- one miner instance ----------

type Cfg struct {
	MaxBlockCost   int   `json:"max_block_cost"`
	TransferCost   int   `json:"transfer_cost"`
	SettingsPeriod int64 `json:"settings_period"` // commit_settings_changes built-in every N rounds (0 = never)
	FutureNonce    int   `json:"future_nonce"`
	MaxByteSize    int64 `json:"max_byte_size"`
	BatchSize      int   `json:"batch_size"`
	FeeEnabled     bool     `json:"fee_enabled,omitempty"`
	MinFee         uint64   `json:"min_fee,omitempty"`
	Exempt         []string `json:"exempt,omitempty"` // ChainConfig.TxnExempt function names
	// PrevSkew: creation date of the previous block relative to the local clock in seconds
	// (0 = the default of 10 s in the past; positive = a previous block from a miner whose clock is
	// ahead, generateBlock then clamps the new block's creation date to it)
	PrevSkew int64 `json:"prev_skew,omitempty"`
}

type Acct struct {
	Client int    `json:"client"`
	Bal    uint64 `json:"bal"`
	Nonce  int64  `json:"nonce"`
}

type Miner struct {
	C      *chain.Chain
	MC     *miner.Chain
	Prev   *block.Block
	cancel context.CancelFunc
}

func (m *Miner) Close() { m.cancel() }

// MinerToken is the client number of the generator's wallet in account lists.
const MinerToken = 999

var clientKeys = map[int]*Key{}
var ckMu sync.Mutex

// ClientKey returns the key pair of client number i.
func ClientKey(i int) *Key {
	if i == MinerToken {
		Setup()
		return MinerKey // the generator's own wallet
	}
	ckMu.Lock()
	defer ckMu.Unlock()
	k, ok := clientKeys[i]
	if !ok {
		k = DetKey("client " + strconv.Itoa(i))
		clientKeys[i] = k
	}
	return k
}

const PrevHash = "ed79cae70d439c11258236da1dfa6fc550f7cc569768304623e8fbd7d70efae4"

type nopBSH struct{}

func (nopBSH) SaveMagicBlock() chain.MagicBlockSaveFunc { return nil }
func (nopBSH) UpdatePendingBlock(context.Context, *block.Block, []datastore.Entity) {
}
func (nopBSH) UpdateFinalizedBlock(context.Context, *block.Block) error { return nil }

// NewMiner builds a chain whose latest finalized (= previous) block is at round-1 with the
// given accounts in its state.
func NewMiner(cfg Cfg, accts []Acct, rnd int64, now common.Timestamp) *Miner {
	Setup()
	c := chain.Provider().(*chain.Chain)
	c.ID = datastore.ToKey(config.GetServerChainID())
	exempt := map[string]bool{}
	for _, n := range cfg.Exempt {
		exempt[n] = true
	}
	data := &chain.ConfigData{
		IsFeeEnabled: cfg.FeeEnabled, MinTxnFee: currency.Coin(cfg.MinFee), IsBlockRewardsEnabled: false,
		MinBlockSize: 1, BlockSize: 1000,
		MaxBlockCost: cfg.MaxBlockCost, TxnTransferCost: cfg.TransferCost, TxnCostFeeCoeff: 10000000000, // estimated fee (in coin units) = cost
		MaxByteSize: cfg.MaxByteSize, ValidationBatchSize: cfg.BatchSize,
		TxnFutureNonce: cfg.FutureNonce, ClientSignatureScheme: "ed25519",
		BlockProposalMaxWaitTime: 2 * time.Minute, SmartContractTimeout: time.Minute,
		SmartContractSettingUpdatePeriod: cfg.SettingsPeriod,
		MinGenerators:                    1, RoundRange: 10000000,
		TxnExempt: exempt,
	}
	c.ChainConfig = chain.NewConfigImpl(data)
	config.Configuration().ChainConfig = c.ChainConfig
	c.SetupStateCache()
	ctx, cancel := context.WithCancel(context.Background())
	go c.StartLFMBWorker(ctx)

	pb := block.NewBlock(c.GetKey(), rnd-1)
	pb.CreationDate = now - 10
	if cfg.PrevSkew != 0 {
		pb.CreationDate = now + common.Timestamp(cfg.PrevSkew)
	}
	pb.Hash = PrevHash
	pb.MinerID = selfNode.GetKey()
	mpt := util.NewMerklePatriciaTrie(util.NewMemoryNodeDB(), util.Sequence(rnd-1), nil, statecache.NewEmpty())
	txn := &transaction.Transaction{HashIDField: datastore.HashIDField{Hash: encryption.Hash("verif conc init")}}
	sctx := cstate.NewStateContext(pb, mpt, txn, nil, nil, nil, nil, nil, nil)
	for _, a := range accts {
		s := &state.State{Balance: currency.Coin(a.Bal), Nonce: a.Nonce}
		if err := s.SetTxnHash("0000000000000000000000000000000000000000000000000000000000000000"); err != nil {
			panic(err)
		}
		if _, err := sctx.SetClientState(ClientKey(a.Client).ID, s); err != nil {
			panic(err)
		}
	}
	if err := storagesc.InitConfig(sctx); err != nil {
		panic(err)
	}
	if err := minersc.InitConfig(sctx); err != nil { // cost table of the payFees built-in (fees enabled)
		panic(err)
	}
	pb.ClientState = mpt
	pb.ClientStateHash = mpt.GetRoot()
	pb.SetStateStatus(block.StateSuccessful)
	pb.SetBlockState(block.StateNotarized)
	pb.MagicBlock = minerMB
	pb.SetRoundRandomSeed(839695260482366273)
	if err := c.UpdateMagicBlock(minerMB); err != nil {
		panic(err)
	}
	c.SetLatestFinalizedMagicBlock(pb)
	c.SetLatestFinalizedBlock(pb)
	c.AddBlock(pb)
	c.SetCurrentRound(rnd)
	return &Miner{C: c, MC: miner.VerifNewChain(c), Prev: pb, cancel: cancel}
}

// NewBlock prepares the block of round rnd the way GenerateRoundBlock does before it calls
// generateBlock.
func (m *Miner) NewBlock(rnd int64) *block.Block {
	b := block.NewBlock(m.C.GetKey(), rnd)
	b.ChainID = m.Prev.ChainID
	lfmbr := m.C.GetLatestFinalizedMagicBlockRound(rnd)
	b.LatestFinalizedMagicBlockHash = lfmbr.Hash
	b.LatestFinalizedMagicBlockRound = lfmbr.Round
	b.MinerID = node.Self.Underlying().GetKey()
	b.SetRoundRandomSeed(1234567)
	b.SetPreviousBlock(m.Prev)
	return b
}

// Generate runs the real generateBlock over the current pool.
func (m *Miner) Generate(ctx context.Context, b *block.Block) error {
	config.Configuration().ChainConfig = m.C.ChainConfig
	chain.SetServerChain(m.C)
	return m.MC.VerifGenerateBlock(ctx, b, nopBSH{}, true, nil)
}

// Receive re-creates the block as a verifier gets it: JSON round trip + ComputeProperties.
func Receive(b *block.Block) (*block.Block, error) {
	buf := datastore.ToJSON(b)
	nb := block.Provider().(*block.Block)
	if err := datastore.FromJSON(bytes.NewReader(buf.Bytes()), nb); err != nil {
		return nil, err
	}
	if err := nb.ComputeProperties(); err != nil {
		return nil, err
	}
	return nb, nil
}

// Verify runs the real VerifyBlock.
func (m *Miner) Verify(ctx context.Context, b *block.Block) (*block.BlockVerificationTicket, error) {
	config.Configuration().ChainConfig = m.C.ChainConfig
	chain.SetServerChain(m.C)
	return m.MC.VerifyBlock(ctx, b)
}
