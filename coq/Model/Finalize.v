(* Model of finalization (property C36): chaincore/chain/protocol_round.go
     ComputeFinalizedBlock, finalizeRound (forward walk, confirmation rule, hand-off to the
     finalized-block worker, roll-back branch), protocol_block.go commonAncestor, and the
     connectivity test of worker.go finalizeBlockProcess (previous round finalized with the
     block's PrevHash) followed by round.Finalize + SetLatestFinalizedBlock.
   Blocks and rounds are numbered by nat.  The block tree is static; what changes is which
   blocks the node knows as notarized in which round, the latest finalized block (LFB) and the
   finalized block recorded in each round.
   Definitions only; proofs are in Proof/Finalize.v. *)
From Coq Require Export List Arith Bool Lia.
Export ListNotations.

Record fz_block := { fz_id : nat; fz_round : nat; fz_parent : option nat }.
(* fz_parent = None: b.PrevBlock is nil and the previous block cannot be obtained *)
Definition fz_tree := list fz_block.

Fixpoint fz_find (t : fz_tree) (id : nat) : option fz_block :=
  match t with
  | [] => None
  | b :: tl => if Nat.eqb (fz_id b) id then Some b else fz_find tl id
  end.

Definition fz_rnd (t : fz_tree) (id : nat) : nat :=
  match fz_find t id with Some b => fz_round b | None => 0 end.
Definition fz_par (t : fz_tree) (id : nat) : option nat :=
  match fz_find t id with Some b => fz_parent b | None => None end.

(* k-th generation ancestor *)
Fixpoint fz_anc (t : fz_tree) (k : nat) (b : nat) : option nat :=
  match k with
  | O => Some b
  | S k' => match fz_par t b with Some p => fz_anc t k' p | None => None end
  end.

(* rounds known to the chain: round number -> notarized blocks of that round object *)
Definition fz_rounds := list (nat * list nat).
Fixpoint fz_lookup {A} (l : list (nat * A)) (n : nat) : option A :=
  match l with
  | [] => None
  | (k, v) :: tl => if Nat.eqb k n then Some v else fz_lookup tl n
  end.

Inductive fz_result := FzSome (b : nat) | FzNone | FzFuel.

(* first loop of ComputeFinalizedBlock: the notarized blocks of the latest round, from rn down
   to lfbr+1, that has any; stops at a round the chain has no object for *)
Fixpoint fz_find_start (known : fz_rounds) (lfbr : nat) (fuel rn : nat) : list nat :=
  match fuel with
  | O => []
  | S f =>
      if Nat.leb rn lfbr then []
      else match fz_lookup known rn with
           | None => []
           | Some [] => fz_find_start known lfbr f (rn - 1)
           | Some ids => ids
           end
  end.

(* one pass of the second loop: previous blocks, without repeats; None = a previous block is missing *)
Fixpoint fz_prevs (t : fz_tree) (frontier : list nat) (acc : list nat) : option (list nat) :=
  match frontier with
  | [] => Some acc
  | b :: tl =>
      match fz_par t b with
      | None => None
      | Some p => if existsb (Nat.eqb p) acc then fz_prevs t tl acc else fz_prevs t tl (acc ++ [p])
      end
  end.

(* for { prev := ...; notarizedBlocks = prev; if len == 1 break } *)
Fixpoint fz_back (t : fz_tree) (fuel : nat) (frontier : list nat) : fz_result :=
  match fuel with
  | O => FzFuel
  | S f =>
      match fz_prevs t frontier [] with
      | None => FzNone
      | Some [x] => FzSome x
      | Some prev => fz_back t f prev
      end
  end.

Definition fz_compute (t : fz_tree) (known : fz_rounds) (lfbr r : nat) : fz_result :=
  match fz_find_start known lfbr (S r) r with
  | [] => FzNone
  | start =>
      match fz_back t (S r) start with
      | FzSome fb => if Nat.eqb (fz_rnd t fb) r then FzNone else FzSome fb
      | x => x
      end
  end.

(* ------------------------------------------------------------------------------------------ *)
(* finalizeRound *)
Record fz_state := {
  fz_lfb : nat;                      (* chain.LatestFinalizedBlock *)
  fz_known : fz_rounds;
  fz_finhash : list (nat * nat)      (* round -> block the round was finalized with (Round.BlockHash) *)
}.

Inductive fz_walk_res := FwOk (chain : list nat) | FwReturn | FwFuel.

(* for b := lfb; b.Hash != plfb.Hash && b.Round > plfb.Round; { frchain = append(frchain, b); ... } *)
Fixpoint fz_walk (t : fz_tree) (plfb maxback fuel b : nat) (acc : list nat) : fz_walk_res :=
  match fuel with
  | O => FwFuel
  | S f =>
      if Nat.eqb b plfb || Nat.leb (fz_rnd t b) (fz_rnd t plfb) then FwOk acc
      else
        let acc' := acc ++ [b] in
        match fz_par t b with
        | None => FwReturn                                  (* previous block is missing *)
        | Some p =>
            if Nat.eqb (fz_rnd t p) (fz_rnd t plfb) && negb (Nat.eqb p plfb) then FwReturn
            else if Nat.leb maxback (length acc') then FwOk acc'
            else fz_walk t plfb maxback f p acc'
        end
  end.

Fixpoint fz_set {A} (l : list (nat * A)) (n : nat) (v : A) : list (nat * A) :=
  match l with
  | [] => [(n, v)]
  | (k, x) :: tl => if Nat.eqb k n then (n, v) :: tl else (k, x) :: fz_set tl n v
  end.

(* the worker's test (finalizeBlockProcess): the previous round exists, is finalized, and was
   finalized with this block's previous block *)
Definition fz_worker_accepts (t : fz_tree) (st : fz_state) (fb : nat) : bool :=
  match fz_rnd t fb, fz_par t fb with
  | S pr, Some p =>
      match fz_lookup (fz_known st) pr, fz_lookup (fz_finhash st) pr with
      | Some _, Some h => Nat.eqb h p
      | _, _ => false
      end
  | _, _ => false
  end.

(* the loop over frchain, oldest first; output: blocks handed to the worker with its verdict *)
Fixpoint fz_handoff (t : fz_tree) (st : fz_state) (r : nat) (chain : list nat) : fz_state * list (nat * bool) :=
  match chain with
  | [] => (st, [])
  | fb :: tl =>
      if Nat.ltb (r - fz_rnd t fb) 3 then fz_handoff t st r tl       (* fewer than 3 confirmations: continue *)
      else match fz_par t fb, fz_lookup (fz_known st) (fz_rnd t fb) with
           | None, _ => (st, [])                                     (* GetLocalPreviousBlock = nil: return *)
           | _, None => (st, [])                                     (* round object missing: return *)
           | Some _, Some ids =>
               (* a block that is not marked notarized has to be fetched (GetNotarizedBlock); with
                  nobody to fetch it from, finalizeRound returns *)
               if negb (existsb (Nat.eqb fb) ids) then (st, []) else
               if fz_worker_accepts t st fb then
                 let st' := {| fz_lfb := fb; fz_known := fz_known st;
                               fz_finhash := fz_set (fz_finhash st) (fz_rnd t fb) fb |} in
                 let '(st'', hs) := fz_handoff t st' r tl in (st'', (fb, true) :: hs)
               else (st, [(fb, false)])
           end
  end.

(* commonAncestor(b1, b2) *)
Fixpoint fz_up (t : fz_tree) (fuel : nat) (target_round : nat) (b : nat) : option nat :=
  match fuel with
  | O => None
  | S f => if Nat.eqb (fz_rnd t b) target_round then Some b
           else match fz_par t b with Some p => fz_up t f target_round p | None => None end
  end.
Fixpoint fz_meet (t : fz_tree) (fuel : nat) (b1 b2 : nat) : option nat :=
  match fuel with
  | O => None
  | S f => if Nat.eqb b1 b2 then Some b1
           else match fz_par t b1, fz_par t b2 with
                | Some p1, Some p2 => fz_meet t f p1 p2
                | _, _ => None
                end
  end.
Definition fz_common_ancestor (t : fz_tree) (b1 b2 : nat) : option nat :=
  if Nat.eqb b1 b2 then Some b1
  else
    let '(lo, hi) := if Nat.ltb (fz_rnd t b2) (fz_rnd t b1) then (b2, b1) else (b1, b2) in
    match fz_up t (S (fz_rnd t hi)) (fz_rnd t lo) hi with
    | Some hi' => fz_meet t (S (fz_rnd t lo)) lo hi'
    | None => None
    end.

Definition fz_finalize (t : fz_tree) (ahead : nat) (st : fz_state) (r : nat) : fz_state * list (nat * bool) :=
  let plfb := fz_lfb st in
  if Nat.leb r (fz_rnd t plfb) then (st, [])
  else
    match fz_compute t (fz_known st) (fz_rnd t plfb) r with
    | FzSome l =>
        if Nat.eqb l plfb then (st, [])
        else if Nat.ltb (fz_rnd t plfb) (fz_rnd t l) then
          if Nat.leb (2 * ahead) (r - fz_rnd t l) then (st, [])
          else match fz_walk t plfb ahead (S (fz_rnd t l)) l [] with
               | FwOk frchain => fz_handoff t st r (rev frchain)
               | _ => (st, [])
               end
        else
          match fz_common_ancestor t plfb l with
          | Some b => ({| fz_lfb := b; fz_known := fz_known st; fz_finhash := fz_finhash st |}, [])
          | None => (st, [])
          end
    | _ => (st, [])
    end.

(* histories: the node learns notarized blocks and runs finalizeRound *)
Inductive fz_op := FzAdd (b : nat) | FzFinalize (r : nat).

Definition fz_add_known (known : fz_rounds) (rn b : nat) : fz_rounds :=
  match fz_lookup known rn with
  | Some ids => if existsb (Nat.eqb b) ids then known else fz_set known rn (ids ++ [b])
  | None => fz_set known rn [b]
  end.

Definition fz_step (t : fz_tree) (ahead : nat) (st : fz_state) (o : fz_op) : fz_state * list (nat * bool) :=
  match o with
  | FzAdd b => ({| fz_lfb := fz_lfb st; fz_known := fz_add_known (fz_known st) (fz_rnd t b) b;
                   fz_finhash := fz_finhash st |}, [])
  | FzFinalize r => fz_finalize t ahead st r
  end.

Fixpoint fz_run (t : fz_tree) (ahead : nat) (st : fz_state) (ops : list fz_op) : list (fz_state * list (nat * bool)) :=
  match ops with
  | [] => []
  | o :: tl => let '(s1, out) := fz_step t ahead st o in (s1, out) :: fz_run t ahead s1 tl
  end.

(* start: genesis block g (round 0) is the LFB, round 0 is finalized with it; rounds 0..n exist *)
Definition fz_init (g : nat) (rounds : list nat) : fz_state :=
  {| fz_lfb := g; fz_known := map (fun n => (n, [])) rounds; fz_finhash := [(0, g)] |}.
