(* Lemmas about the governance-settings model (property C48). *)
From ZC Require Import Model.Settings.
From Coq Require Import Sorting.Permutation Lia OrdersEx.
Open Scope Z_scope.

(* ---------- stores ---------- *)

Lemma st_get_set : forall s k v k',
  st_get (st_set s k v) k' = if String.eqb k k' then Some v else st_get s k'.
Proof.
  induction s as [|[k0 v0] tl IH]; intros k v k'; cbn [st_set st_get].
  - destruct (String.eqb_spec k k'); reflexivity.
  - destruct (String.eqb_spec k0 k) as [E|N]; cbn [st_get].
    + subst k0. destruct (String.eqb_spec k k'); reflexivity.
    + destruct (String.eqb_spec k0 k') as [E'|N'].
      * subst k0. destruct (String.eqb_spec k k'); [congruence|reflexivity].
      * apply IH.
Qed.

(* ---------- the sorted visiting order ---------- *)

Lemma st_leb_trans : forall a b c, String.leb a b = true -> String.leb b c = true -> String.leb a c = true.
Proof.
  intros a b c. unfold String.leb.
  destruct (String.compare a b) eqn:AB; try discriminate; intros _;
    destruct (String.compare b c) eqn:BC; try discriminate; intros _.
  - apply String.compare_eq_iff in AB. subst. rewrite BC. reflexivity.
  - apply String.compare_eq_iff in AB. subst. rewrite BC. reflexivity.
  - apply String.compare_eq_iff in BC. subst. rewrite AB. reflexivity.
  - assert (T : String_as_OT.lt a c).
    { destruct String_as_OT.lt_strorder as [_ Tr]. apply (Tr a b c); [exact AB|exact BC]. }
    unfold String_as_OT.lt in T. change String_as_OT.compare with String.compare in T. rewrite T. reflexivity.
Qed.

Lemma st_insert_perm : forall e l, Permutation (e :: l) (st_insert e l).
Proof.
  induction l as [|x tl IH]; cbn [st_insert]; [apply Permutation_refl|].
  destruct (String.leb (e_key e) (e_key x)); [apply Permutation_refl|].
  eapply perm_trans; [apply perm_swap|]. apply perm_skip. exact IH.
Qed.

Lemma st_sort_perm : forall l, Permutation l (st_sort l).
Proof.
  induction l as [|x tl IH]; cbn [st_sort]; [constructor|].
  eapply perm_trans; [apply perm_skip; exact IH | apply st_insert_perm].
Qed.

Inductive st_sorted : list st_entry -> Prop :=
  | SsNil : st_sorted []
  | SsOne : forall x, st_sorted [x]
  | SsCons : forall x y l, String.leb (e_key x) (e_key y) = true -> st_sorted (y :: l) -> st_sorted (x :: y :: l).

Lemma st_insert_sorted : forall e l, st_sorted l -> st_sorted (st_insert e l).
Proof.
  intros e l H. induction H as [|y|y z l L H IH]; cbn [st_insert].
  - constructor.
  - destruct (String.leb (e_key e) (e_key y)) eqn:A; [constructor; [exact A|constructor]|].
    constructor; [|constructor]. destruct (String.leb_total (e_key e) (e_key y)) as [T|T]; [congruence|exact T].
  - destruct (String.leb (e_key e) (e_key y)) eqn:A.
    + constructor; [exact A|]. constructor; assumption.
    + cbn [st_insert] in IH. destruct (String.leb (e_key e) (e_key z)) eqn:B.
      * constructor; [destruct (String.leb_total (e_key e) (e_key y)) as [T|T]; [congruence|exact T]|].
        constructor; [exact B|exact H].
      * constructor; [exact L|exact IH].
Qed.

Lemma st_sort_sorted : forall l, st_sorted (st_sort l).
Proof. induction l as [|x tl IH]; cbn [st_sort]; [constructor | apply st_insert_sorted; exact IH]. Qed.

Lemma st_sorted_head_min : forall x l, st_sorted (x :: l) -> forall y, In y l -> String.leb (e_key x) (e_key y) = true.
Proof.
  intros x l. revert x. induction l as [|z tl IH]; intros x H y I; [destruct I|].
  inversion H; subst. destruct I as [I|I]; [subst; assumption|].
  eapply st_leb_trans; [eassumption|]. apply IH; assumption.
Qed.

Lemma st_sorted_tail : forall x l, st_sorted (x :: l) -> st_sorted l.
Proof. intros x l H. inversion H; subst; [constructor|assumption]. Qed.

(* two sorted lists with the same entries and pairwise distinct keys are equal *)
Lemma st_sorted_perm_eq : forall l l', st_sorted l -> st_sorted l' -> Permutation l l' -> NoDup (map e_key l) -> l = l'.
Proof.
  induction l as [|x tl IH]; intros l' S S' P ND.
  - apply Permutation_nil in P. subst. reflexivity.
  - destruct l' as [|y tl']; [apply Permutation_sym, Permutation_nil in P; discriminate|].
    assert (ND' : NoDup (map e_key (y :: tl'))).
    { eapply Permutation_NoDup; [apply Permutation_map; exact P|exact ND]. }
    assert (x = y).
    { assert (Ix : In x (y :: tl')) by (eapply Permutation_in; [exact P|left; reflexivity]).
      assert (Iy : In y (x :: tl)) by (eapply Permutation_in; [apply Permutation_sym; exact P|left; reflexivity]).
      destruct Ix as [Ix|Ix]; [congruence|]. destruct Iy as [Iy|Iy]; [congruence|].
      pose proof (st_sorted_head_min _ _ S y Iy) as A. pose proof (st_sorted_head_min _ _ S' x Ix) as B.
      pose proof (String.leb_antisym _ _ A B) as K.
      (* equal keys, but y is in tl and x heads a list without repeated keys *)
      exfalso. cbn [map] in ND. inversion ND as [|a b Hn _]; subst. apply Hn. rewrite K. apply in_map. exact Iy. }
    subst y. f_equal. apply IH.
    + eapply st_sorted_tail; eauto.
    + eapply st_sorted_tail; eauto.
    + eapply Permutation_cons_inv; eauto.
    + cbn [map] in ND. inversion ND; assumption.
Qed.

Lemma st_sort_perm_eq : forall es1 es2, Permutation es1 es2 -> NoDup (map e_key es1) -> st_sort es1 = st_sort es2.
Proof.
  intros es1 es2 P ND. apply st_sorted_perm_eq; try apply st_sort_sorted.
  - eapply perm_trans; [apply Permutation_sym, st_sort_perm|]. eapply perm_trans; [exact P|apply st_sort_perm].
  - eapply Permutation_NoDup; [apply Permutation_map, st_sort_perm|exact ND].
Qed.

(* the outcome of an update is a function of the request (a Go map: distinct keys), not of its iteration order *)
Lemma st_update_perm : forall sp s es1 es2,
  Permutation es1 es2 -> NoDup (map e_key es1) -> st_update sp s es1 = st_update sp s es2.
Proof. intros sp s es1 es2 P ND. unfold st_update. rewrite (st_sort_perm_eq es1 es2 P ND). reflexivity. Qed.

(* ---------- what an accepted entry is ---------- *)

(* the key names a row of the table whose flag is set, or a listed cost function *)
Definition st_listedb (sp : st_spec) (e : st_entry) : bool :=
  let k := st_ekey sp e in
  match st_lookup (sp_table sp) k with
  | Some r => (st_row_flag r || match sp_cost sp with CostAny => st_is_cost k | _ => false end)%bool
  | None => match sp_cost sp with
            | CostListed fns => (prefix "cost" k &&
                                 existsb (fun f => String.eqb (st_lower (st_trim_prefix "cost." k)) (st_lower f)) fns)%bool
            | _ => false
            end
  end.

Lemma st_eval_ok_listed : forall sp e kv, st_eval sp e = ROk kv -> st_listedb sp e = true.
Proof.
  intros sp e kv H. unfold st_eval in H. unfold st_listedb.
  destruct (st_lookup (sp_table sp) (st_ekey sp e)) as [r|].
  - destruct (match sp_cost sp with CostAny => st_is_cost (st_ekey sp e) | _ => false end); [apply orb_true_r|].
    destruct (st_row_flag r); [reflexivity|discriminate].
  - destruct (sp_cost sp) as [|fns|]; try discriminate.
    destruct (prefix "cost" (st_ekey sp e)); [|discriminate].
    destruct (existsb _ fns); [reflexivity|discriminate].
Qed.

Definition st_accepted (sp : st_spec) (e : st_entry) : Prop :=
  st_listedb sp e = true /\ exists kv, st_eval sp e = ROk kv.

Lemma st_update_from_ok_forall : forall sp es seen s s',
  st_update_from sp seen s es = ROk s' -> Forall (st_accepted sp) es.
Proof.
  induction es as [|e tl IH]; intros seen s s' H; [constructor|].
  cbn [st_update_from] in H. destruct (sp_trim sp && existsb _ seen)%bool; [discriminate|].
  unfold st_apply in H. destruct (st_eval sp e) as [[k v]| |] eqn:E; try discriminate.
  constructor; [split; [eapply st_eval_ok_listed; eauto|eauto] | eapply IH; eauto].
Qed.

(* every entry of the request - not only those before some cut - was looked at and accepted *)
Lemma st_update_ok_accepted : forall sp es s s', st_update sp s es = ROk s' -> Forall (st_accepted sp) es.
Proof.
  intros sp es s s' H. unfold st_update in H. pose proof (st_update_from_ok_forall _ _ _ _ _ H) as F.
  rewrite Forall_forall in *. intros e I. apply F. eapply Permutation_in; [apply st_sort_perm|exact I].
Qed.

(* ---------- pending-changes merge (storagesc) ---------- *)

Lemma st_pend_set_in : forall p e, In e (st_pend_set p e).
Proof.
  induction p as [|x tl IH]; intro e; cbn [st_pend_set]; [left; reflexivity|].
  destruct (String.eqb (e_key x) (e_key e)); [left; reflexivity | right; apply IH].
Qed.

Lemma st_pend_set_keeps : forall p e x, In x p -> e_key x <> e_key e -> In x (st_pend_set p e).
Proof.
  induction p as [|y tl IH]; intros e x I N; [destruct I|].
  cbn [st_pend_set]. destruct (String.eqb_spec (e_key y) (e_key e)) as [E|NE].
  - destruct I as [I|I]; [subst y; contradiction | right; exact I].
  - destruct I as [I|I]; [left; exact I | right; apply IH; assumption].
Qed.

Lemma st_merge_keeps : forall es p x, In x p -> ~ In (e_key x) (map e_key es) -> In x (st_merge p es).
Proof.
  unfold st_merge. induction es as [|y tl IH]; intros p x I N; [exact I|].
  cbn [fold_left]. apply IH.
  - apply st_pend_set_keeps; [exact I|]. intro E. apply N. left. symmetry. exact E.
  - intro X. apply N. right. exact X.
Qed.

Lemma st_merge_in : forall es p e,
  NoDup (map e_key es) -> In e es -> In e (st_merge p es).
Proof.
  induction es as [|x tl IH]; intros p e ND I; [destruct I|].
  cbn [map] in ND. inversion ND as [|a b Hnin ND']; subst.
  destruct I as [I|I].
  - subst x. change (st_merge p (e :: tl)) with (st_merge (st_pend_set p e) tl).
    apply st_merge_keeps; [apply st_pend_set_in|exact Hnin].
  - change (st_merge p (x :: tl)) with (st_merge (st_pend_set p x) tl). apply IH; assumption.
Qed.

(* ---------- the step function ---------- *)

Lemma st_only_owner : forall k env s t,
  t_caller t <> st_owner k env s -> st_step k env s (OpUpdate t) = (s, OutErrOwner).
Proof.
  intros k env s t N. unfold st_step.
  destruct (String.eqb_spec (st_owner k env s) (t_caller t)) as [E|_]; [congruence|]. reflexivity.
Qed.

Lemma st_rejected_keeps : forall k env s o,
  snd (st_step k env s o) <> OutOk -> fst (st_step k env s o) = s.
Proof.
  intros k env s o. unfold st_step.
  destruct o as [t|].
  - destruct (negb (String.eqb (st_owner k env s) (t_caller t))); [reflexivity|].
    destruct (negb (t_decodes t)); [reflexivity|].
    destruct k; cbn [st_spec_of sp_validate];
      repeat match goal with
             | |- context [st_update ?a ?b ?c] => destruct (st_update a b c) eqn:?
             | |- context [t_entries t] => destruct (t_entries t) eqn:?
             | |- context [if ?b then _ else _] => destruct b eqn:?
             end; cbn [fst snd]; intro H; try reflexivity; try (exfalso; apply H; reflexivity).
  - destruct k; cbn [fst snd]; try reflexivity.
    destruct (g_pend s); cbn [fst snd]; [reflexivity|].
    destruct (st_update _ _ _); cbn [fst snd]; try reflexivity.
    destruct (st_valid_storage a); cbn [fst snd]; intro H; [exfalso; apply H|]; reflexivity.
Qed.

(* the entries an operation ranges over (storagesc: the merged pending map) *)
Definition st_applied (k : st_contract) (s : st_state) (o : st_op) : list st_entry :=
  match k, o with
  | KStorage, OpUpdate t => match t_entries t with [] => [] | _ => st_merge (g_pend s) (t_entries t) end
  | KStorage, OpCommit => g_pend s
  | _, OpUpdate t => t_entries t
  | _, OpCommit => []
  end.

Lemma st_step_ok_accepted : forall k env s o s',
  st_step k env s o = (s', OutOk) -> Forall (st_accepted (st_spec_of k)) (st_applied k s o).
Proof.
  intros k env s o s' H. unfold st_step in H. unfold st_applied.
  destruct o as [t|].
  - destruct (negb (String.eqb (st_owner k env s) (t_caller t))); [discriminate|].
    destruct (negb (t_decodes t)); [discriminate|].
    destruct k.
    + destruct (st_update _ _ _) eqn:U; try discriminate. eapply st_update_ok_accepted; eauto.
    + destruct (st_update _ _ _) eqn:U; try discriminate. eapply st_update_ok_accepted; eauto.
    + destruct (t_entries t) eqn:T; [constructor|]. rewrite <- T in *.
      destruct (st_update _ _ _) eqn:U; try discriminate. eapply st_update_ok_accepted; eauto.
    + destruct (st_update _ _ _) eqn:U; try discriminate. eapply st_update_ok_accepted; eauto.
    + destruct (st_update _ _ _) eqn:U; try discriminate. eapply st_update_ok_accepted; eauto.
    + destruct (st_update _ _ _) eqn:U; try discriminate. eapply st_update_ok_accepted; eauto.
  - destruct k; try discriminate.
    destruct (g_pend s) eqn:P; [constructor|]. rewrite <- P in *.
    destruct (st_update _ _ _) eqn:U; try discriminate. eapply st_update_ok_accepted; eauto.
Qed.

(* from a valid node every successful operation gives a valid node *)
Lemma st_valid_after : forall k env s o s',
  st_valid_of k (g_conf s) = true -> st_step k env s o = (s', OutOk) -> st_valid_of k (g_conf s') = true.
Proof.
  intros k env s o s' V H. unfold st_step in H.
  destruct o as [t|].
  - destruct (negb (String.eqb (st_owner k env s) (t_caller t))); [discriminate|].
    destruct (negb (t_decodes t)); [discriminate|].
    destruct k; cbn [st_spec_of sp_validate] in H.
    + reflexivity.
    + destruct (st_update _ _ _) eqn:U; try discriminate.
      destruct (st_valid_miner a) eqn:W; inversion H; subst. exact W.
    + destruct (t_entries t); [inversion H; subst; exact V|].
      destruct (st_update _ _ _) eqn:U; try discriminate.
      destruct (env_demeter env) eqn:D.
      * destruct (st_valid_storage a) eqn:W; inversion H; subst. exact W.
      * inversion H; subst. exact V.
    + destruct (st_update _ _ _) eqn:U; try discriminate.
      destruct (st_valid_faucet a) eqn:W; inversion H; subst. exact W.
    + destruct (st_update _ _ _) eqn:U; try discriminate.
      destruct (st_valid_vesting a) eqn:W; inversion H; subst. exact W.
    + destruct (st_update _ _ _) eqn:U; try discriminate.
      destruct (st_valid_zcn a) eqn:W; inversion H; subst. exact W.
  - destruct k; try discriminate.
    destruct (g_pend s); [inversion H; subst; exact V|].
    destruct (st_update _ _ _) eqn:U; try discriminate.
    destruct (st_valid_storage a) eqn:W; inversion H; subst. exact W.
Qed.

(* ---------- panics ---------- *)

Definition st_ty_globals_ok (t : st_ty) : bool :=
  match t with
  | StInt | StInt64 | StInt32 | StDuration | StFloat | StBool | StString | StStrings | StCoin => true
  | _ => false
  end.

Lemma st_lookup_in : forall tbl k r, st_lookup tbl k = Some r -> In r tbl.
Proof.
  induction tbl as [|x tl IH]; intros k r H; [discriminate|].
  cbn [st_lookup] in H. destruct (String.eqb (st_row_name x) k); [inversion H; left; reflexivity | right; eauto].
Qed.

Lemma st_parse_globals_no_panic : forall t raw po,
  st_ty_globals_ok t = true -> st_parse true t raw po <> RPanic.
Proof.
  intros t raw po H. destruct t; try discriminate; cbn [st_parse]; unfold st_of_opt;
    repeat match goal with |- context [match ?x with _ => _ end] => destruct x end; discriminate.
Qed.

Lemma st_parse_contract_no_panic : forall t raw po, st_parse false t raw po <> RPanic.
Proof.
  intros t raw po. destruct t; cbn [st_parse]; unfold st_of_opt;
    repeat match goal with |- context [match ?x with _ => _ end] => destruct x eqn:? end; discriminate.
Qed.

Lemma st_globals_table_types : forallb (fun r => st_ty_globals_ok (st_row_ty r)) gen_globals_table = true.
Proof. vm_compute. reflexivity. Qed.

Lemma st_eval_no_panic : forall k e, st_eval (st_spec_of k) e <> RPanic.
Proof.
  intros k e. unfold st_eval.
  destruct (st_lookup (sp_table (st_spec_of k)) (st_ekey (st_spec_of k) e)) as [r|] eqn:L.
  - destruct (match sp_cost (st_spec_of k) with CostAny => _ | _ => false end).
    + destruct (po_int (e_po e)); discriminate.
    + destruct (st_row_flag r); [|discriminate].
      assert (N : st_parse (sp_globals (st_spec_of k)) (st_row_ty r) (st_evalue (st_spec_of k) e) (e_po e) <> RPanic).
      { destruct k; cbn [st_spec_of sp_globals]; try apply st_parse_contract_no_panic.
        apply st_parse_globals_no_panic. cbn [st_spec_of sp_table] in L.
        pose proof (st_lookup_in _ _ _ L) as I. pose proof st_globals_table_types as T.
        rewrite forallb_forall in T. exact (T r I). }
      destruct (st_parse _ _ _ _); [discriminate|discriminate|congruence].
  - destruct (sp_cost (st_spec_of k)) as [|fns|]; try discriminate.
    repeat match goal with |- context [match ?x with _ => _ end] => destruct x end; discriminate.
Qed.

Lemma st_update_from_no_panic : forall k es seen s, st_update_from (st_spec_of k) seen s es <> RPanic.
Proof.
  induction es as [|e tl IH]; intros seen s; [discriminate|].
  cbn [st_update_from]. destruct (_ && _)%bool; [discriminate|].
  unfold st_apply. pose proof (st_eval_no_panic k e) as N.
  destruct (st_eval (st_spec_of k) e) as [[a v]| |]; [apply IH|discriminate|congruence].
Qed.

Lemma st_update_no_panic : forall k s es, st_update (st_spec_of k) s es <> RPanic.
Proof. intros k s es. unfold st_update. apply st_update_from_no_panic. Qed.

Lemma st_step_never_panics : forall k env s o, snd (st_step k env s o) <> OutPanic.
Proof.
  intros k env s o. unfold st_step.
  assert (N : forall c es, st_update (st_spec_of k) c es <> RPanic) by (intros; apply st_update_no_panic).
  destruct o as [t|].
  - destruct (negb _); [cbn; discriminate|]. destruct (negb _); [cbn; discriminate|].
    destruct k; cbn [st_spec_of sp_validate] in *.
    + destruct (st_update _ _ _) eqn:U; cbn; try discriminate. exfalso. eapply N; eassumption.
    + destruct (st_update _ _ _) eqn:U; cbn; try discriminate; [|exfalso; eapply N; eassumption].
      destruct (st_valid_miner a); cbn; discriminate.
    + destruct (t_entries t) eqn:T; [cbn; discriminate|]. rewrite <- T.
      destruct (st_update _ _ _) eqn:U; cbn; try discriminate; [|exfalso; eapply N; eassumption].
      destruct (env_demeter env); [destruct (st_valid_storage a)|]; cbn; discriminate.
    + destruct (st_update _ _ _) eqn:U; cbn; try discriminate; [|exfalso; eapply N; eassumption].
      destruct (st_valid_faucet a); cbn; discriminate.
    + destruct (st_update _ _ _) eqn:U; cbn; try discriminate; [|exfalso; eapply N; eassumption].
      destruct (st_valid_vesting a); cbn; discriminate.
    + destruct (st_update _ _ _) eqn:U; cbn; try discriminate; [|exfalso; eapply N; eassumption].
      destruct (st_valid_zcn a); cbn; discriminate.
  - destruct k; cbn [fst snd]; try discriminate. cbn [st_spec_of] in *.
    destruct (g_pend s) eqn:P; cbn [fst snd]; [discriminate|]. rewrite <- P.
    destruct (st_update _ _ _) eqn:U; cbn; try discriminate; [|exfalso; eapply N; eassumption].
    destruct (st_valid_storage a); cbn; discriminate.
Qed.

Lemma st_globals_consumer_types : st_global_type_disagreements = [] /\ st_global_consumers_declared = true.
Proof. vm_compute. split; reflexivity. Qed.

(* a float value update_globals accepts is finite (config.StringToInterface, read off the source by the translator) *)
Lemma st_global_float_finite : forall raw po v, st_parse true StFloat raw po = ROk v ->
  exists b, po_flt po = Some b /\ fl_finite b = true.
Proof.
  intros raw po v H. cbn [st_parse] in H. destruct (po_flt po) as [b|]; [|discriminate].
  exists b. split; [reflexivity|].
  assert (G : gen_globals_float_finite_only = true) by (vm_compute; reflexivity). rewrite G in H. cbn [andb] in H.
  destruct (fl_finite b); [reflexivity|discriminate].
Qed.
