(* Computational facts about the generated table (coq/Gen/LockTable.v) for C44. *)
From ZC Require Import Model.Lockset Proof.Lockset Gen.LockTable.
Open Scope string_scope.

(* the generated table passes the lockset check once the listed pairs are set aside *)
Lemma lt_table_disciplined : lt_disciplined lt_excl lt_table = true.
Proof. vm_compute. reflexivity. Qed.

(* offending pairs when only the benign entries are set aside *)
Definition lt_offending_pairs : list (lt_access * lt_access) :=
  filter (fun p => negb (lt_ok (lt_benign lt_excl) (fst p) (snd p))) (list_prod lt_table lt_table).

(* every entry listed as a defect still names an offending pair of the current tree *)
Lemma lt_listed_defects_offend :
  forallb (fun e => existsb (fun p => lt_excl_matches e (fst p) (snd p)) lt_offending_pairs) (lt_defects lt_excl) = true.
Proof. vm_compute. reflexivity. Qed.

(* the current tree has at least one offending pair outside the benign list *)
Lemma lt_table_has_offender : lt_first_offender (lt_benign lt_excl) lt_table <> None.
Proof. vm_compute. discriminate. Qed.
