(* Correspondence for C35: cases are runs of the real node/round/chain packages.
   [RkCase]: a miner set added in some order, the draws of the seed's generator, and what the
   real code computed (pool order, permutation, rank per miner, GetMinersByRank order).
   [RsCase]: SetRandomSeed/SetRandomSeedForNotarizedBlock calls, final seed and the seed the
   stored permutation belongs to (seed and miner count).
   [NbCase]: an op history on a real round with the outputs and the final block lists.
   To keep the case files small, miners and block objects are listed once in a table and
   referred to by index (a presentation encoding only; [rk_check] expands it). *)
From ZC Require Import Base.Corr Model.Round.
Open Scope Z_scope.

(* the behaviour of UpdateNotarizedBlock in /repo: [false] = as written (stores the old block
   back); set to [true] when the repair ([r.notarizedBlocks[i] = b]) is applied *)
Definition nb_code_fixed : bool := true.

Inductive nb_opi := IAdd (i : nat) | IPropose (i : nat) | IUpdate (i : nat) | IBest | IHeaviest.
(* outputs: ONone = nothing returned; OBlk None = nil; OBlk (Some i) = block object i *)
Inductive nb_outi := ONone | OBlk (o : option nat).

Inductive rk_case :=
| RkCase (keys : list Z)            (* id of miner i (first 8 hex digits: order-preserving, pairwise distinct) *)
         (order : list nat)         (* AddNode sequence *)
         (draws : list nat) (shuffled : list nat)
         (pool : list nat) (perm : list nat) (ranks : list Z) (* rank of pool member k *) (byrank : list nat)
| RsCase (ops : list rs_op) (seed : Z) (permkey : option (Z * Z))
| NbCase (blocks : list (Z * Z))    (* (hash, rank) of object i; its token is i+1 *)
         (ops : list nb_opi) (outs : list nb_outi) (proposed notarized : list nat).

Definition nb_out_eqb (a b : nb_out) : bool :=
  match a, b with
  | NbNone, NbNone => true
  | NbBlock x, NbBlock y => option_eqb nb_block_eqb x y
  | _, _ => false
  end.

Definition nb_obj (blocks : list (Z * Z)) (i : nat) : nb_block :=
  let hr := nth i blocks (0, 0) in {| nb_hash := fst hr; nb_rank := snd hr; nb_tok := Z.of_nat (S i) |}.

Definition nb_op_of (blocks : list (Z * Z)) (o : nb_opi) : nb_op :=
  match o with
  | IAdd i => NbAdd (nb_obj blocks i)
  | IPropose i => NbPropose (nb_obj blocks i)
  | IUpdate i => NbUpdate (nb_obj blocks i)
  | IBest => NbBest
  | IHeaviest => NbHeaviest
  end.

Definition nb_out_of (blocks : list (Z * Z)) (o : nb_outi) : nb_out :=
  match o with
  | ONone => NbNone
  | OBlk x => NbBlock (option_map (nb_obj blocks) x)
  end.

Definition rk_check (c : rk_case) : bool :=
  match c with
  | RkCase keys order draws shuffled pool perm ranks byrank =>
      let key i := nth i keys 0 in
      let p := rk_build (map key order) in
      let m := rk_perm draws in
      rk_draws_ok draws &&
      list_eqb Z.eqb p (map key pool) &&
      list_eqb Nat.eqb m perm &&
      list_eqb (option_eqb Z.eqb) (map (rk_rank p m) p) (map Some ranks) &&
      list_eqb Z.eqb (rk_by_rank p m (map key shuffled)) (map key byrank)
  | RsCase ops seed permkey =>
      let s := rs_run ops in
      Z.eqb (rs_seed s) seed && option_eqb zz_eqb (rs_permkey s) permkey
  | NbCase blocks ops outs proposed notarized =>
      let '(r, o) := nb_run nb_code_fixed nb_init (map (nb_op_of blocks) ops) in
      list_eqb nb_out_eqb o (map (nb_out_of blocks) outs) &&
      list_eqb nb_block_eqb (nb_proposed r) (map (nb_obj blocks) proposed) &&
      list_eqb nb_block_eqb (nb_notarized r) (map (nb_obj blocks) notarized)
  end.
