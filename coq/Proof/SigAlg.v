(* Lemmas about Model/SigAlg.v (C47, C32). Scalars: any commutative ring without zero divisors
   and with decidable equality (the prime field of the group order). *)
From ZC Require Import Model.SigAlg.
From Coq Require Import Ring.

Section SigAlgProofs.
  Variable F : Type.
  Variables (f0 f1 : F) (fadd fmul fsub : F -> F -> F) (fopp : F -> F).
  Variable feqb : F -> F -> bool.
  Hypothesis Fth : ring_theory f0 f1 fadd fmul fsub fopp (@eq F).
  Hypothesis Fintegral : forall a b, fmul a b = f0 -> a = f0 \/ b = f0.
  Hypothesis F1neq0 : f1 <> f0.
  Hypothesis feqb_spec : forall a b, feqb a b = true <-> a = b.

  Add Ring Fring : Fth.

  Notation G := (sg_G F).
  Notation zero := (sg_zero F f0).
  Notation unit := (sg_unit F f0 f1).
  Notation scale := (sg_scale F fmul).
  Notation add := (sg_add F fadd).
  Notation sub := (sg_sub F fsub).
  Notation eqn := (sg_eq F).
  Notation eqbn := (sg_eqb F feqb).
  Notation sign := (bls_sign F f0 f1 fmul).
  Notation pair := (bls_pair F f0 f1 fmul).
  Notation verify := (bls_verify F f0 f1 fmul feqb).

  Lemma sg_eqb_spec : forall n P Q, eqbn n P Q = true <-> eqn n P Q.
  Proof.
    intros n P Q. unfold sg_eqb, sg_eq. rewrite forallb_forall. split.
    - intros H i Hi. apply feqb_spec, H, in_seq. lia.
    - intros H i Hi. apply in_seq in Hi. apply feqb_spec, H. lia.
  Qed.

  Lemma sg_eqb_false : forall n P Q, eqbn n P Q = false <-> ~ eqn n P Q.
  Proof.
    intros n P Q. rewrite <- sg_eqb_spec. destruct (eqbn n P Q); split; intro H; congruence.
  Qed.

  Lemma sg_eqb_ext : forall n P P' Q Q', (forall i, P i = P' i) -> (forall i, Q i = Q' i) ->
    eqbn n P Q = eqbn n P' Q'.
  Proof.
    intros n P P' Q Q' HP HQ. unfold sg_eqb.
    induction (seq 0 n) as [|a l IH]; [reflexivity|]. cbn [forallb]. rewrite HP, HQ, IH. reflexivity.
  Qed.

  Lemma sg_unit_same : forall m, unit m m = f1.
  Proof. intro m. unfold sg_unit. rewrite Nat.eqb_refl. reflexivity. Qed.

  Lemma sg_unit_other : forall m i, i <> m -> unit m i = f0.
  Proof. intros m i H. unfold sg_unit. destruct (Nat.eqb_spec i m); [contradiction|reflexivity]. Qed.

  (* ---------- BLS ---------- *)

  Theorem bls_sign_verify : forall n x m, verify n x m (sign x m) = true.
  Proof. intros. unfold bls_verify. apply sg_eqb_spec. intros i _. reflexivity. Qed.

  Theorem bls_verify_unique : forall n x m s, verify n x m s = true -> eqn n s (sign x m).
  Proof. intros n x m s H. apply sg_eqb_spec in H. exact H. Qed.

  Theorem bls_other_key_fails : forall n x x' m, (m < n)%nat -> x <> x' ->
    verify n x' m (sign x m) = false.
  Proof.
    intros n x x' m Hm Hx. unfold bls_verify. apply sg_eqb_false. intro H.
    specialize (H m Hm). unfold bls_sign, bls_pair, sg_scale in H. rewrite sg_unit_same in H.
    apply Hx. transitivity (fmul x f1); [ring|]. rewrite H. ring.
  Qed.

  Theorem bls_other_hash_fails : forall n x m m', (m < n)%nat -> m <> m' -> x <> f0 ->
    verify n x m' (sign x m) = false.
  Proof.
    intros n x m m' Hm Hmm Hx. unfold bls_verify. apply sg_eqb_false. intro H.
    specialize (H m Hm). unfold bls_sign, bls_pair, sg_scale in H.
    rewrite sg_unit_same, (sg_unit_other m' m Hmm) in H.
    apply Hx. transitivity (fmul x f1); [ring|]. rewrite H. ring.
  Qed.

  Theorem bls_tampered_signature_fails : forall n x m d i, (i < n)%nat -> d i <> f0 ->
    verify n x m (add (sign x m) d) = false.
  Proof.
    intros n x m d i Hi Hd. unfold bls_verify. apply sg_eqb_false. intro H.
    specialize (H i Hi). unfold sg_add, bls_sign, bls_pair in H.
    apply Hd. transitivity (fsub (fadd (scale x (unit m) i) (d i)) (scale x (unit m) i)); [ring|].
    rewrite H. ring.
  Qed.

  (* ---------- ed25519 / Schnorr ---------- *)
  Variable hc : F -> F -> nat -> F.
  Notation esign := (ed_sign F fadd fmul hc).
  Notation everify := (ed_verify F fadd fmul feqb hc).

  Theorem ed_sign_verify : forall a r m, everify a m (esign a r m) = true.
  Proof. intros. unfold ed_verify, ed_sign. cbn [fst snd]. apply feqb_spec. reflexivity. Qed.

  Lemma feqb_false : forall a b, feqb a b = false <-> a <> b.
  Proof. intros a b. rewrite <- feqb_spec. destruct (feqb a b); split; intro H; congruence. Qed.

  Lemma fadd_cancel_l : forall a b c, fadd a b = fadd a c -> b = c.
  Proof.
    intros a b c H. transitivity (fsub (fadd a b) a); [ring|]. rewrite H. ring.
  Qed.

  (* other key / other message: the challenge hash is idealised (random oracle): the products
     h.a do not collide across keys, and h differs across messages *)
  Theorem ed_other_key_fails : forall a a' r m,
    fmul (hc r a m) a <> fmul (hc r a' m) a' -> everify a' m (esign a r m) = false.
  Proof.
    intros a a' r m H. unfold ed_verify, ed_sign. cbn [fst snd]. apply feqb_false.
    intro E. apply fadd_cancel_l in E. contradiction.
  Qed.

  Theorem ed_other_hash_fails : forall a r m m', a <> f0 -> hc r a m <> hc r a m' ->
    everify a m' (esign a r m) = false.
  Proof.
    intros a r m m' Ha Hh. unfold ed_verify, ed_sign. cbn [fst snd]. apply feqb_false.
    intro E. apply fadd_cancel_l in E.
    assert (Z0 : fmul (fsub (hc r a m) (hc r a m')) a = f0).
    { transitivity (fsub (fmul (hc r a m) a) (fmul (hc r a m') a)); [ring|]. rewrite E. ring. }
    apply Fintegral in Z0. destruct Z0 as [Z0|Z0]; [|contradiction].
    apply Hh. transitivity (fadd (fsub (hc r a m) (hc r a m')) (hc r a m')); [ring|]. rewrite Z0. ring.
  Qed.

  Theorem ed_tampered_S_fails : forall a r m d, d <> f0 ->
    everify a m (fst (esign a r m), fadd (snd (esign a r m)) d) = false.
  Proof.
    intros a r m d Hd. unfold ed_verify, ed_sign. cbn [fst snd]. apply feqb_false.
    intro E. apply Hd.
    transitivity (fsub (fadd (fadd r (fmul (hc r a m) a)) d) (fadd r (fmul (hc r a m) a))); [ring|].
    rewrite E. ring.
  Qed.

  (* ---------- aggregate verification ---------- *)
  Notation item := (ag_item F).
  Notation sigsum := (ag_sigsum F f0 fadd).
  Notation pairsum := (ag_pairsum F f0 f1 fadd fmul).
  Notation valid := (ag_item_valid F f0 f1 fmul feqb).
  Notation run := (ag_run F f0 f1 fadd fmul feqb).
  Notation update := (ag_update F f0 f1 fadd fmul).
  Notation feed := (ag_feed F f0 f1 fadd fmul).
  Notation total := (ag_total F f0 fadd).

  (* the specification: one comparison of the two sums *)
  Definition ag_spec (n : nat) (items : list item) : bool := eqbn n (sigsum items) (pairsum items).

  (* sum of the accumulators, empty slots counting as zero *)
  Fixpoint ag_tot0 (st : list (option (ag_acc F))) : ag_acc F :=
    match st with
    | [] => (zero, zero)
    | None :: tl => ag_tot0 tl
    | Some (s, g) :: tl => (add s (fst (ag_tot0 tl)), add g (snd (ag_tot0 tl)))
    end.

  Definition ag_filled (st : list (option (ag_acc F))) (k : nat) : Prop := nth k st None <> None.

  Lemma ag_update_length : forall st k it, length (update st k it) = length st.
  Proof.
    induction st as [|slot tl IH]; intros k it; [reflexivity|].
    destruct k; cbn [ag_update length]; [reflexivity|]. rewrite IH. reflexivity.
  Qed.

  Lemma ag_update_tot0 : forall st k it i, (k < length st)%nat ->
    fst (ag_tot0 (update st k it)) i = fadd (fst (ag_tot0 st) i) (ai_sig F it i) /\
    snd (ag_tot0 (update st k it)) i = fadd (snd (ag_tot0 st) i) (pair (ai_key F it) (ai_msg F it) i).
  Proof.
    induction st as [|slot tl IH]; intros k it i Hk; [simpl in Hk; lia|].
    destruct k as [|k].
    - cbn [ag_update]. destruct slot as [[s g]|]; cbn [ag_tot0 fst snd]; unfold sg_add; split; ring.
    - cbn [ag_update]. simpl in Hk. destruct (IH k it i) as [A B]; [lia|].
      destruct slot as [[s g]|]; cbn [ag_tot0 fst snd]; unfold sg_add; [|split; assumption].
      rewrite A, B. split; ring.
  Qed.

  Lemma ag_update_filled_same : forall st k it, (k < length st)%nat -> ag_filled (update st k it) k.
  Proof.
    induction st as [|slot tl IH]; intros k it Hk; [simpl in Hk; lia|].
    destruct k as [|k]; unfold ag_filled; cbn [ag_update nth].
    - destruct slot as [[s g]|]; discriminate.
    - apply IH. simpl in Hk. lia.
  Qed.

  Lemma ag_update_filled_keep : forall st k it j, ag_filled st j -> ag_filled (update st k it) j.
  Proof.
    induction st as [|slot tl IH]; intros k it j H; [exact H|].
    destruct k as [|k]; destruct j as [|j]; unfold ag_filled in *; cbn [ag_update nth] in *.
    - destruct slot as [[s g]|]; discriminate.
    - exact H.
    - exact H.
    - apply IH. exact H.
  Qed.

  Lemma ag_feed_length : forall bs items st idx, length (feed bs st idx items) = length st.
  Proof.
    induction items as [|it tl IH]; intros st idx; [reflexivity|].
    cbn [ag_feed]. rewrite IH. unfold ag_aggregate. apply ag_update_length.
  Qed.

  Lemma ag_feed_tot0 : forall bs items st idx i,
    (forall j, (idx <= j < idx + length items)%nat -> (j / bs < length st)%nat) ->
    fst (ag_tot0 (feed bs st idx items)) i = fadd (fst (ag_tot0 st) i) (sigsum items i) /\
    snd (ag_tot0 (feed bs st idx items)) i = fadd (snd (ag_tot0 st) i) (pairsum items i).
  Proof.
    induction items as [|it tl IH]; intros st idx i Hb.
    - cbn [ag_feed ag_sigsum ag_pairsum]. unfold sg_zero. split; ring.
    - cbn [ag_feed ag_sigsum ag_pairsum]. unfold ag_aggregate.
      destruct (IH (update st (idx / bs) it) (S idx) i) as [A B].
      { intros j Hj. rewrite ag_update_length. apply Hb. cbn [length]. lia. }
      destruct (ag_update_tot0 st (idx / bs) it i) as [C D].
      { apply Hb. cbn [length]. lia. }
      rewrite A, B, C, D. unfold sg_add. split; ring.
  Qed.

  Lemma ag_feed_filled : forall bs items st idx k, (k < length st)%nat ->
    (forall j, (idx <= j < idx + length items)%nat -> (j / bs < length st)%nat) ->
    ag_filled st k \/ (exists j, (idx <= j < idx + length items)%nat /\ (j / bs)%nat = k) ->
    ag_filled (feed bs st idx items) k.
  Proof.
    induction items as [|it tl IH]; intros st idx k Hk Hb H.
    - cbn [ag_feed]. destruct H as [H|(j & Hj & _)]; [exact H|simpl in Hj; lia].
    - cbn [ag_feed]. unfold ag_aggregate. apply IH.
      + rewrite ag_update_length. exact Hk.
      + intros j Hj. rewrite ag_update_length. apply Hb. cbn [length]. lia.
      + destruct H as [H|(j & Hj & Ej)].
        * left. apply ag_update_filled_keep. exact H.
        * cbn [length] in Hj. destruct (Nat.eq_dec j idx) as [->|Hne].
          -- left. rewrite Ej. apply ag_update_filled_same. exact Hk.
          -- right. exists j. split; [lia|exact Ej].
  Qed.

  Lemma ag_total_filled : forall st, (forall k, (k < length st)%nat -> ag_filled st k) ->
    exists s g, total st = Some (s, g) /\
                (forall i, s i = fst (ag_tot0 st) i) /\ (forall i, g i = snd (ag_tot0 st) i).
  Proof.
    induction st as [|slot tl IH]; intro H.
    - exists zero, zero. repeat split; reflexivity.
    - assert (H0 := H 0%nat). unfold ag_filled in H0. cbn [nth length] in H0.
      destruct slot as [[s g]|]; [|exfalso; apply H0; [lia|reflexivity]].
      destruct IH as (s' & g' & E & A & B).
      { intros k Hk. specialize (H (S k)). unfold ag_filled in *. cbn [nth length] in H. apply H. lia. }
      exists (add s s'), (add g g'). cbn [ag_total]. rewrite E. split; [reflexivity|].
      cbn [ag_tot0 fst snd]. unfold sg_add. split; intro i; [rewrite A|rewrite B]; reflexivity.
  Qed.

  Lemma ag_nbatches_bound : forall tot bs j, (0 < bs)%nat -> (j < tot)%nat ->
    (j / bs < ag_nbatches tot bs)%nat.
  Proof.
    intros tot bs j Hbs Hj. unfold ag_nbatches.
    destruct (Nat.ltb_spec (tot / bs * bs) tot) as [L|L].
    - pose proof (Nat.div_le_mono j tot bs ltac:(lia) ltac:(lia)). lia.
    - apply Nat.div_lt_upper_bound; [lia|]. lia.
  Qed.

  Lemma ag_nbatches_hit : forall tot bs k, (0 < bs)%nat -> (k < ag_nbatches tot bs)%nat ->
    (k * bs < tot)%nat.
  Proof.
    intros tot bs k Hbs Hk. unfold ag_nbatches in Hk.
    pose proof (Nat.mul_div_le tot bs ltac:(lia)) as M.
    destruct (Nat.ltb_spec (tot / bs * bs) tot) as [L|L].
    - assert (k <= tot / bs)%nat by lia.
      assert (k * bs <= tot / bs * bs)%nat by (apply Nat.mul_le_mono_r; lia). lia.
    - assert (S k <= tot / bs)%nat by lia.
      assert (S k * bs <= tot / bs * bs)%nat by (apply Nat.mul_le_mono_r; lia).
      rewrite (Nat.mul_comm bs) in M. simpl in H0. lia.
  Qed.

  Lemma ag_tot0_repeat_none : forall k i,
    fst (ag_tot0 (repeat None k)) i = f0 /\ snd (ag_tot0 (repeat None k)) i = f0.
  Proof.
    induction k as [|k IH]; intro i; cbn [repeat ag_tot0]; [split; reflexivity|apply IH].
  Qed.

  (* Batching is irrelevant: for every batch size and every non-empty list the code computes the
     specification (no panic, and the verdict is the single comparison of the two sums). *)
  Theorem ag_run_is_spec : forall n bs items, (0 < bs)%nat -> items <> [] ->
    run n bs items = if ag_spec n items then AgAccept else AgReject.
  Proof.
    intros n bs items Hbs Hne. unfold ag_run. destruct bs as [|bs']; [lia|].
    set (bs := S bs') in *. set (st0 := ag_new F (length items) bs).
    assert (L0 : length st0 = ag_nbatches (length items) bs) by (unfold st0, ag_new; apply repeat_length).
    assert (Hb : forall j, (0 <= j < 0 + length items)%nat -> (j / bs < length st0)%nat).
    { intros j Hj. rewrite L0. apply ag_nbatches_bound; lia. }
    set (st := feed bs st0 0 items).
    assert (Lst : length st = length st0) by (unfold st; apply ag_feed_length).
    assert (Hfill : forall k, (k < length st)%nat -> ag_filled st k).
    { intros k Hk. unfold st. apply ag_feed_filled; [lia|exact Hb|]. right.
      exists (k * bs)%nat. split.
      - rewrite Lst, L0 in Hk. pose proof (ag_nbatches_hit _ _ _ Hbs Hk). lia.
      - apply Nat.div_mul. lia. }
    destruct (ag_total_filled st Hfill) as (s & g & E & A & B).
    assert (Hpos : (0 < length st)%nat).
    { rewrite Lst, L0. destruct items as [|it tl]; [congruence|].
      pose proof (ag_nbatches_bound (length (it :: tl)) bs 0 Hbs ltac:(simpl; lia)). lia. }
    unfold ag_verify. destruct st as [|slot tl] eqn:Est; [simpl in Hpos; lia|]. rewrite E.
    unfold ag_spec.
    assert (Z : forall i, fst (ag_tot0 st0) i = f0 /\ snd (ag_tot0 st0) i = f0).
    { intro i. unfold st0, ag_new. apply ag_tot0_repeat_none. }
    rewrite (sg_eqb_ext n s (sigsum items) g (pairsum items)); [reflexivity| |].
    - intro i. rewrite A. rewrite <- Est. unfold st.
      destruct (ag_feed_tot0 bs items st0 0 i Hb) as [C _]. rewrite C.
      destruct (Z i) as [Z1 _]. rewrite Z1. ring.
    - intro i. rewrite B. rewrite <- Est. unfold st.
      destruct (ag_feed_tot0 bs items st0 0 i Hb) as [_ D]. rewrite D.
      destruct (Z i) as [_ Z2]. rewrite Z2. ring.
  Qed.

  Lemma ag_valid_spec : forall n it, valid n it = true <->
    eqn n (ai_sig F it) (pair (ai_key F it) (ai_msg F it)).
  Proof. intros. unfold ag_item_valid, bls_verify. apply sg_eqb_spec. Qed.

  Lemma ag_sums_of_valid : forall n items, Forall (fun it => valid n it = true) items ->
    eqn n (sigsum items) (pairsum items).
  Proof.
    induction items as [|it tl IH]; intros H i Hi; [reflexivity|].
    inversion H as [|? ? Hv Ht]; subst. cbn [ag_sigsum ag_pairsum]. unfold sg_add.
    apply ag_valid_spec in Hv. rewrite (Hv i Hi), (IH Ht i Hi). reflexivity.
  Qed.

  Theorem ag_spec_complete : forall n items, Forall (fun it => valid n it = true) items ->
    ag_spec n items = true.
  Proof. intros n items H. unfold ag_spec. apply sg_eqb_spec. apply ag_sums_of_valid. exact H. Qed.

  Lemma ag_sigsum_app : forall a b i, sigsum (a ++ b) i = fadd (sigsum a i) (sigsum b i).
  Proof.
    induction a as [|x a IH]; intros b i; cbn [app ag_sigsum]; unfold sg_add, sg_zero; [ring|].
    rewrite IH. ring.
  Qed.

  Lemma ag_pairsum_app : forall a b i, pairsum (a ++ b) i = fadd (pairsum a i) (pairsum b i).
  Proof.
    induction a as [|x a IH]; intros b i; cbn [app ag_pairsum]; unfold sg_add, sg_zero; [ring|].
    rewrite IH. ring.
  Qed.

  (* soundness when at most one signature is in doubt *)
  Theorem ag_spec_sound_one_unknown : forall n pre it post,
    Forall (fun x => valid n x = true) pre -> Forall (fun x => valid n x = true) post ->
    ag_spec n (pre ++ it :: post) = true -> valid n it = true.
  Proof.
    intros n pre it post Hpre Hpost H. apply ag_valid_spec. intros i Hi.
    unfold ag_spec in H. apply sg_eqb_spec in H. specialize (H i Hi).
    rewrite ag_sigsum_app, ag_pairsum_app in H. cbn [ag_sigsum ag_pairsum] in H. unfold sg_add in H.
    rewrite (ag_sums_of_valid n pre Hpre i Hi), (ag_sums_of_valid n post Hpost i Hi) in H.
    set (a := pairsum pre i) in *. set (b := pairsum post i) in *.
    transitivity (fsub (fsub (fadd a (fadd (ai_sig F it i) b)) a) b); [ring|]. rewrite H. ring.
  Qed.

  (* cancelling forgeries: sigma1 + d, sigma2 - d *)
  Definition ag_cancel_items (x1 x2 : F) (m1 m2 : nat) (d : G) : list item :=
    [ {| ai_key := x1; ai_msg := m1; ai_sig := add (sign x1 m1) d |};
      {| ai_key := x2; ai_msg := m2; ai_sig := sub (sign x2 m2) d |} ].

  Theorem ag_cancelling_forgery_accepted : forall n x1 x2 m1 m2 d,
    ag_spec n (ag_cancel_items x1 x2 m1 m2 d) = true.
  Proof.
    intros. unfold ag_spec. apply sg_eqb_spec. intros i _.
    cbn [ag_cancel_items ag_sigsum ag_pairsum ai_sig ai_key ai_msg].
    unfold sg_add, sg_sub, sg_zero, bls_sign, bls_pair. ring.
  Qed.

  Theorem ag_cancelling_forgery_invalid : forall n x1 x2 m1 m2 d i, (i < n)%nat -> d i <> f0 ->
    valid n (nth 0 (ag_cancel_items x1 x2 m1 m2 d) {| ai_key := x1; ai_msg := m1; ai_sig := d |}) = false /\
    valid n (nth 1 (ag_cancel_items x1 x2 m1 m2 d) {| ai_key := x1; ai_msg := m1; ai_sig := d |}) = false.
  Proof.
    intros n x1 x2 m1 m2 d i Hi Hd. cbn [ag_cancel_items nth]. unfold ag_item_valid. cbn [ai_key ai_msg ai_sig].
    split.
    - eapply bls_tampered_signature_fails; eauto.
    - unfold bls_verify. apply sg_eqb_false. intro H. specialize (H i Hi).
      unfold sg_sub, bls_sign, bls_pair in H. apply Hd.
      transitivity (fsub (scale x2 (unit m2) i) (fsub (scale x2 (unit m2) i) (d i))); [ring|].
      rewrite H. ring.
  Qed.

  (* same message, rogue key x2 - x1: the victim (key x1) contributes nothing *)
  Definition ag_rogue_items (x1 x2 : F) (m : nat) : list item :=
    [ {| ai_key := x1; ai_msg := m; ai_sig := zero |};
      {| ai_key := fsub x2 x1; ai_msg := m; ai_sig := sign x2 m |} ].

  Theorem ag_rogue_key_accepted : forall n x1 x2 m, ag_spec n (ag_rogue_items x1 x2 m) = true.
  Proof.
    intros. unfold ag_spec. apply sg_eqb_spec. intros i _.
    cbn [ag_rogue_items ag_sigsum ag_pairsum ai_sig ai_key ai_msg].
    unfold sg_add, sg_zero, bls_sign, bls_pair, sg_scale. ring.
  Qed.

  Theorem ag_rogue_key_victim_invalid : forall n x1 m, (m < n)%nat -> x1 <> f0 ->
    valid n {| ai_key := x1; ai_msg := m; ai_sig := zero |} = false.
  Proof.
    intros n x1 m Hm Hx. unfold ag_item_valid, bls_verify. cbn [ai_key ai_msg ai_sig].
    apply sg_eqb_false. intro H. specialize (H m Hm). unfold sg_zero, bls_pair, sg_scale in H.
    rewrite sg_unit_same in H. apply Hx. transitivity (fmul x1 f1); [ring|]. rewrite <- H. reflexivity.
  Qed.
End SigAlgProofs.

(* the two sums, hence the specification, do not depend on the order of the entries *)
From Coq Require Import Sorting.Permutation.
Section Order.
  Variable F : Type.
  Variables (f0 f1 : F) (fadd fmul fsub : F -> F -> F) (fopp : F -> F).
  Variable feqb : F -> F -> bool.
  Hypothesis Fth : ring_theory f0 f1 fadd fmul fsub fopp (@eq F).
  Add Ring Fring2 : Fth.

  Lemma ag_sums_perm : forall (a b : list (ag_item F)), Permutation a b -> forall i,
    ag_sigsum F f0 fadd a i = ag_sigsum F f0 fadd b i /\
    ag_pairsum F f0 f1 fadd fmul a i = ag_pairsum F f0 f1 fadd fmul b i.
  Proof.
    induction 1 as [|x l l' _ IH|x y l|l l' l'' _ IH1 _ IH2]; intro i.
    - split; reflexivity.
    - destruct (IH i) as [A B]. cbn [ag_sigsum ag_pairsum]. unfold sg_add. rewrite A, B. split; reflexivity.
    - cbn [ag_sigsum ag_pairsum]. unfold sg_add. split; ring.
    - destruct (IH1 i), (IH2 i). split; congruence.
  Qed.

  Lemma ag_spec_perm : forall n (a b : list (ag_item F)), Permutation a b ->
    ag_spec F f0 f1 fadd fmul feqb n a = ag_spec F f0 f1 fadd fmul feqb n b.
  Proof.
    intros n a b P. unfold ag_spec. apply sg_eqb_ext; intro i; destruct (ag_sums_perm a b P i); assumption.
  Qed.
End Order.

(* ---------- the same statements with the assumptions on the scalars bundled (sg_scalars) ---------- *)
Section Bundled.
  Variable F : Type.
  Variables (f0 f1 : F) (fadd fmul fsub : F -> F -> F) (fopp : F -> F).
  Variable feqb : F -> F -> bool.
  Hypothesis HS : sg_scalars F f0 f1 fadd fmul fsub fopp feqb.

  Ltac unbundle := destruct HS as (R & I & N & E).

  Lemma sgb_bls_sign_verify : forall n x m,
    bls_verify F f0 f1 fmul feqb n x m (bls_sign F f0 f1 fmul x m) = true.
  Proof. unbundle. intros. eapply bls_sign_verify; eauto. Qed.

  Lemma sgb_bls_other_key_fails : forall n x x' m, (m < n)%nat -> x <> x' ->
    bls_verify F f0 f1 fmul feqb n x' m (bls_sign F f0 f1 fmul x m) = false.
  Proof. unbundle. intros. eapply bls_other_key_fails; eauto. Qed.

  Lemma sgb_bls_other_hash_fails : forall n x m m', (m < n)%nat -> m <> m' -> x <> f0 ->
    bls_verify F f0 f1 fmul feqb n x m' (bls_sign F f0 f1 fmul x m) = false.
  Proof. unbundle. intros. eapply bls_other_hash_fails; eauto. Qed.

  Lemma sgb_bls_tampered_signature_fails : forall n x m d i, (i < n)%nat -> d i <> f0 ->
    bls_verify F f0 f1 fmul feqb n x m (sg_add F fadd (bls_sign F f0 f1 fmul x m) d) = false.
  Proof. unbundle. intros. eapply bls_tampered_signature_fails; eauto. Qed.

  Lemma sgb_ed_sign_verify : forall hc a r m,
    ed_verify F fadd fmul feqb hc a m (ed_sign F fadd fmul hc a r m) = true.
  Proof. unbundle. intros. eapply ed_sign_verify; eauto. Qed.

  Lemma sgb_ed_other_key_fails : forall hc a a' r m, fmul (hc r a m) a <> fmul (hc r a' m) a' ->
    ed_verify F fadd fmul feqb hc a' m (ed_sign F fadd fmul hc a r m) = false.
  Proof. unbundle. intros. eapply ed_other_key_fails; eauto. Qed.

  Lemma sgb_ed_other_hash_fails : forall hc a r m m', a <> f0 -> hc r a m <> hc r a m' ->
    ed_verify F fadd fmul feqb hc a m' (ed_sign F fadd fmul hc a r m) = false.
  Proof. unbundle. intros. eapply ed_other_hash_fails; eauto. Qed.

  Lemma sgb_ed_tampered_S_fails : forall hc a r m d, d <> f0 ->
    ed_verify F fadd fmul feqb hc a m
      (fst (ed_sign F fadd fmul hc a r m), fadd (snd (ed_sign F fadd fmul hc a r m)) d) = false.
  Proof. unbundle. intros. eapply ed_tampered_S_fails; eauto. Qed.

  Notation run := (ag_run F f0 f1 fadd fmul feqb).
  Notation valid := (ag_item_valid F f0 f1 fmul feqb).

  (* completeness for every batch size *)
  Lemma sgb_agg_complete : forall n bs items, (0 < bs)%nat -> items <> [] ->
    Forall (fun it => valid n it = true) items -> run n bs items = AgAccept.
  Proof.
    unbundle. intros n bs items Hbs Hne Hv.
    rewrite (ag_run_is_spec F f0 f1 fadd fmul fsub fopp feqb R n bs items Hbs Hne).
    rewrite (ag_spec_complete F f0 f1 fadd fmul feqb E n items Hv). reflexivity.
  Qed.

  (* the verdict does not depend on the batch size *)
  Lemma sgb_agg_batch_size_irrelevant : forall n bs bs' items, (0 < bs)%nat -> (0 < bs')%nat ->
    items <> [] -> run n bs items = run n bs' items.
  Proof.
    unbundle. intros n bs bs' items H1 H2 Hne.
    rewrite !(ag_run_is_spec F f0 f1 fadd fmul fsub fopp feqb R n) by assumption. reflexivity.
  Qed.

  (* the verdict is a function of the multiset of entries: any order of the Aggregate calls, any
     batch size *)
  Lemma sgb_agg_order_irrelevant : forall n bs bs' items items', (0 < bs)%nat -> (0 < bs')%nat ->
    items <> [] -> Permutation items items' -> run n bs items = run n bs' items'.
  Proof.
    unbundle. intros n bs bs' items items' H1 H2 Hne P.
    assert (Hne' : items' <> []) by (intro Z; subst; apply Permutation_sym, Permutation_nil in P; contradiction).
    rewrite (ag_run_is_spec F f0 f1 fadd fmul fsub fopp feqb R n bs items H1 Hne).
    rewrite (ag_run_is_spec F f0 f1 fadd fmul fsub fopp feqb R n bs' items' H2 Hne').
    rewrite (ag_spec_perm F f0 f1 fadd fmul fsub fopp feqb R n items items' P). reflexivity.
  Qed.

  (* soundness when at most one signature is in doubt *)
  Lemma sgb_agg_sound_partial : forall n bs pre it post, (0 < bs)%nat ->
    Forall (fun x => valid n x = true) pre -> Forall (fun x => valid n x = true) post ->
    run n bs (pre ++ it :: post) = AgAccept -> valid n it = true.
  Proof.
    unbundle. intros n bs pre it post Hbs Hpre Hpost Hacc.
    assert (Hne : pre ++ it :: post <> []) by (destruct pre; discriminate).
    rewrite (ag_run_is_spec F f0 f1 fadd fmul fsub fopp feqb R n bs _ Hbs Hne) in Hacc.
    destruct (ag_spec F f0 f1 fadd fmul feqb n (pre ++ it :: post)) eqn:Sp; [|discriminate].
    exact (ag_spec_sound_one_unknown F f0 f1 fadd fmul fsub fopp feqb R E n pre it post Hpre Hpost Sp).
  Qed.

  (* the full soundness statement and its refutation by cancelling forgeries *)
  Definition sgb_agg_sound_statement : Prop :=
    forall n bs items, (0 < bs)%nat -> items <> [] ->
      run n bs items = AgAccept -> Forall (fun it => valid n it = true) items.

  Lemma sgb_agg_sound_refuted : ~ sgb_agg_sound_statement.
  Proof.
    unbundle. intro S.
    set (d := sg_unit F f0 f1 2).
    set (items := ag_cancel_items F f0 f1 fadd fmul fsub f1 f1 0 1 d).
    assert (Hacc : run 3 1 items = AgAccept).
    { rewrite (ag_run_is_spec F f0 f1 fadd fmul fsub fopp feqb R 3 1 items); [|lia|discriminate].
      unfold items. rewrite (ag_cancelling_forgery_accepted F f0 f1 fadd fmul fsub fopp feqb R E). reflexivity. }
    specialize (S 3%nat 1%nat items ltac:(lia) ltac:(discriminate) Hacc).
    unfold items, ag_cancel_items in S. apply Forall_inv in S.
    destruct (ag_cancelling_forgery_invalid F f0 f1 fadd fmul fsub fopp feqb R E 3 f1 f1 0 1 d 2) as [B _];
      [lia|unfold d, sg_unit; simpl; exact N|].
    cbn [ag_cancel_items nth] in B. rewrite B in S. discriminate.
  Qed.

  (* witnesses, for every two keys and messages *)
  Lemma sgb_agg_cancelling_forgery : forall n bs x1 x2 m1 m2 d i, (0 < bs)%nat -> (i < n)%nat -> d i <> f0 ->
    let items := ag_cancel_items F f0 f1 fadd fmul fsub x1 x2 m1 m2 d in
    run n bs items = AgAccept /\ Forall (fun it => valid n it = false) items.
  Proof.
    unbundle. intros n bs x1 x2 m1 m2 d i Hbs Hi Hd items. split.
    - rewrite (ag_run_is_spec F f0 f1 fadd fmul fsub fopp feqb R n bs items); [|lia|discriminate].
      unfold items. rewrite (ag_cancelling_forgery_accepted F f0 f1 fadd fmul fsub fopp feqb R E). reflexivity.
    - destruct (ag_cancelling_forgery_invalid F f0 f1 fadd fmul fsub fopp feqb R E n x1 x2 m1 m2 d i Hi Hd) as [A B].
      unfold items, ag_cancel_items. cbn [ag_cancel_items nth] in A, B. repeat constructor; assumption.
  Qed.

  Lemma sgb_agg_rogue_key : forall n bs x1 x2 m, (0 < bs)%nat -> (m < n)%nat -> x1 <> f0 ->
    let items := ag_rogue_items F f0 f1 fmul fsub x1 x2 m in
    run n bs items = AgAccept /\ valid n (nth 0 items {| ai_key := x1; ai_msg := m; ai_sig := sg_zero F f0 |}) = false.
  Proof.
    unbundle. intros n bs x1 x2 m Hbs Hm Hx items. split.
    - rewrite (ag_run_is_spec F f0 f1 fadd fmul fsub fopp feqb R n bs items); [|lia|discriminate].
      unfold items. rewrite (ag_rogue_key_accepted F f0 f1 fadd fmul fsub fopp feqb R E). reflexivity.
    - unfold items, ag_rogue_items. cbn [nth].
      eapply (ag_rogue_key_victim_invalid F f0 f1 fadd fmul fsub fopp feqb R E); eauto.
  Qed.
End Bundled.

(* the callers ignore Verify's bool; in the model of the code a false answer always carries an error,
   so looking at err only loses nothing *)
Lemma ag_caller_view_agrees : forall v : ag_verdict,
  ag_caller_accepts (ag_go_result v) = match v with AgAccept => true | _ => false end.
Proof. intros []; reflexivity. Qed.

(* the verdict of a call is a function of its keys, messages and signatures only: whatever was
   verified before (or after) does not matter *)
Lemma ag_history_independent : forall F f0 f1 fadd fmul feqb n
    (pre post : list (nat * list (ag_item F))) (c : nat * list (ag_item F)),
  nth (length pre) (ag_history F f0 f1 fadd fmul feqb n (pre ++ c :: post)) AgPanic
  = ag_run F f0 f1 fadd fmul feqb n (fst c) (snd c).
Proof.
  intros. unfold ag_history. rewrite map_app. rewrite app_nth2; rewrite map_length; [|lia].
  rewrite Nat.sub_diag. reflexivity.
Qed.
