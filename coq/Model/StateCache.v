(* Model of the state cache protocol (property C07):
   chaincore/chain/state/state_context.go GetTrieNode / InsertTrieNode / DeleteTrieNode over
   github.com/0chain/common core/statecache (TransactionCache with tombstones over BlockCache over
   StateCache) and the state trie.  Definitions only; proofs are in Proof/StateCache.v.

   Objects live in a heap so that aliasing can be expressed: an object is a struct with a scalar
   field and one reference (slice / map / pointer) to a mutable heap cell.  A type's Clone /
   CopyFrom are deep (fresh cell) or shallow (same cell) according to [sc_mode]; e.g.
   partitions.Partitions has a deep Clone (msgp round trip) and a shallow CopyFrom (`*p = *cp`).
   The trie stores serialized values (pure data, no aliasing: Insert marshals at once).
   The three cache layers are association lists key -> (object, deleted); the committed blocks of
   the StateCache are a list of layers, newest first (lookup by walking the prev-hash chain = first
   layer that has the key).  Not modelled: LRU capacity, forks, the migration of an old entry to a
   newer block hash on read, the re-Clone done when an entry moves from the transaction cache to
   the block cache / state cache (the source copy is dropped at once, nobody else references it). *)
From Coq Require Export List ZArith Bool Arith Lia.
Export ListNotations.
Open Scope Z_scope.

Section ScAlist.
  Context {K V : Type} (eqb : K -> K -> bool).
  Fixpoint sc_al_get (k : K) (l : list (K * V)) : option V :=
    match l with
    | [] => None
    | (k', v) :: tl => if eqb k k' then Some v else sc_al_get k tl
    end.
  Fixpoint sc_al_del (k : K) (l : list (K * V)) : list (K * V) :=
    match l with
    | [] => []
    | (k', v) :: tl => if eqb k k' then sc_al_del k tl else (k', v) :: sc_al_del k tl
    end.
  Definition sc_al_set (k : K) (v : V) (l : list (K * V)) : list (K * V) := (k, v) :: sc_al_del k l.
End ScAlist.

Definition sc_data : Type := (Z * Z)%type.               (* serialized value: scalar part, referenced part *)
Record sc_obj := { so_scalar : Z; so_ref : nat }.
Record sc_node := { sn_obj : sc_obj; sn_deleted : bool }.  (* statecache.valueNode *)
Definition sc_layer : Type := list (Z * sc_node).
Definition sc_trie : Type := list (Z * sc_data).
Definition sc_heap : Type := list (nat * Z).

Record sc_mode := { md_clone_deep : bool; md_copy_deep : bool }.

Record sc_state := {
  ss_mode : sc_mode;
  ss_heap : sc_heap; ss_next : nat;
  ss_tc : sc_layer;            (* TransactionCache.cache *)
  ss_bc : sc_layer;            (* BlockCache.cache *)
  ss_sc : list sc_layer;       (* StateCache: committed blocks, newest first *)
  ss_ttxn : sc_trie;           (* the transaction's trie *)
  ss_tblk : sc_trie;           (* the block's trie (committed transactions) *)
  ss_tbase : sc_trie;          (* the previous block's trie *)
  ss_handles : list sc_obj }.  (* objects the caller holds (returned by reads / passed to inserts) *)

Definition sc_hget (h : sc_heap) (l : nat) : Z :=
  match sc_al_get Nat.eqb l h with Some v => v | None => 0 end.
Definition sc_deref (h : sc_heap) (o : sc_obj) : sc_data := (so_scalar o, sc_hget h (so_ref o)).

(* Clone / CopyFrom: deep = a fresh cell with the same content *)
Definition sc_copy (deep : bool) (h : sc_heap) (n : nat) (o : sc_obj) : sc_heap * nat * sc_obj :=
  if deep then (sc_al_set Nat.eqb n (sc_hget h (so_ref o)) h, S n, {| so_scalar := so_scalar o; so_ref := n |})
  else (h, n, o).

(* a fresh object holding data d (decoded from the trie / built by the caller) *)
Definition sc_alloc (h : sc_heap) (n : nat) (d : sc_data) : sc_heap * nat * sc_obj :=
  (sc_al_set Nat.eqb n (snd d) h, S n, {| so_scalar := fst d; so_ref := n |}).

Inductive sc_look := LHit (o : sc_obj) | LMiss.
Fixpoint sc_lookup (ls : list sc_layer) (k : Z) : sc_look :=
  match ls with
  | [] => LMiss
  | l :: tl => match sc_al_get Z.eqb k l with
               | Some n => if sn_deleted n then LMiss else LHit (sn_obj n)
               | None => sc_lookup tl k
               end
  end.

Definition sc_layers (st : sc_state) : list sc_layer := ss_tc st :: ss_bc st :: ss_sc st.

Inductive sc_op :=
| SGet (k : Z)                 (* GetTrieNode(k, fresh object) *)
| SInsert (k t : Z)            (* InsertTrieNode(k, new object with content (t,t)); the caller keeps it *)
| SInsertH (k : Z) (i : nat)   (* InsertTrieNode(k, the i-th held object as it is now) *)
| SDelete (k : Z)
| SMutate (i : nat) (t : Z)    (* the caller overwrites every field / element of the i-th held object *)
| SCommitTxn | SDiscardTxn | SCommitBlock | SDiscardBlock
| SInsertRej (k : Z).          (* InsertTrieNode of a value the trie rejects (encoding larger than
                                  MPTMaxAllowableNodeSize): an error, neither trie nor cache change *)

Inductive sc_out := SOData (d : option sc_data) | SOOk | SOErr.

Definition sc_upd (st : sc_state) (h : sc_heap) (n : nat) (tc : sc_layer) (tt : sc_trie) (hs : list sc_obj) : sc_state :=
  {| ss_mode := ss_mode st; ss_heap := h; ss_next := n; ss_tc := tc; ss_bc := ss_bc st; ss_sc := ss_sc st;
     ss_ttxn := tt; ss_tblk := ss_tblk st; ss_tbase := ss_tbase st; ss_handles := hs |}.

(* cache.Set(key, v): stores v.Clone() *)
Definition sc_cache_set (st : sc_state) (h : sc_heap) (n : nat) (k : Z) (v : sc_obj) : sc_heap * nat * sc_layer :=
  let '(h1, n1, cv) := sc_copy (md_clone_deep (ss_mode st)) h n v in
  (h1, n1, sc_al_set Z.eqb k {| sn_obj := cv; sn_deleted := false |} (ss_tc st)).

Fixpoint sc_set_nth (i : nat) (o : sc_obj) (l : list sc_obj) : list sc_obj :=
  match l with
  | [] => []
  | x :: tl => match i with O => o :: tl | S j => x :: sc_set_nth j o tl end
  end.

Definition sc_merge (top bottom : sc_layer) : sc_layer :=
  fold_right (fun kn acc => sc_al_set Z.eqb (fst kn) (snd kn) acc) bottom top.

Definition sc_step (st : sc_state) (o : sc_op) : sc_state * sc_out :=
  let m := ss_mode st in
  match o with
  | SGet k =>
      match sc_lookup (sc_layers st) k with
      | LHit c =>
          (* cache.Get returns value.data.Clone(); then v.CopyFrom(that) *)
          let '(h1, n1, cv) := sc_copy (md_clone_deep m) (ss_heap st) (ss_next st) c in
          let '(h2, n2, v) := sc_copy (md_copy_deep m) h1 n1 cv in
          (sc_upd st h2 n2 (ss_tc st) (ss_ttxn st) (ss_handles st ++ [v]), SOData (Some (sc_deref h2 v)))
      | LMiss =>
          match sc_al_get Z.eqb k (ss_ttxn st) with
          | None => (st, SOData None)
          | Some d =>
              let '(h1, n1, v) := sc_alloc (ss_heap st) (ss_next st) d in
              let '(h2, n2, tc) := sc_cache_set st h1 n1 k v in
              (sc_upd st h2 n2 tc (ss_ttxn st) (ss_handles st ++ [v]), SOData (Some d))
          end
      end
  | SInsert k t =>
      let '(h1, n1, v) := sc_alloc (ss_heap st) (ss_next st) (t, t) in
      let '(h2, n2, tc) := sc_cache_set st h1 n1 k v in
      (sc_upd st h2 n2 tc (sc_al_set Z.eqb k (t, t) (ss_ttxn st)) (ss_handles st ++ [v]), SOOk)
  | SInsertH k i =>
      match nth_error (ss_handles st) i with
      | None => (st, SOErr)
      | Some v =>
          let '(h2, n2, tc) := sc_cache_set st (ss_heap st) (ss_next st) k v in
          (sc_upd st h2 n2 tc (sc_al_set Z.eqb k (sc_deref (ss_heap st) v) (ss_ttxn st)) (ss_handles st), SOOk)
      end
  | SDelete k =>
      match sc_al_get Z.eqb k (ss_ttxn st) with
      | None => (st, SOErr)                      (* deleteNode fails, the cache is not touched *)
      | Some _ =>
          let tomb := match sc_al_get Z.eqb k (ss_tc st) with
                      | Some n => {| sn_obj := sn_obj n; sn_deleted := true |}
                      | None => {| sn_obj := {| so_scalar := 0; so_ref := O |}; sn_deleted := true |}
                      end in
          (sc_upd st (ss_heap st) (ss_next st) (sc_al_set Z.eqb k tomb (ss_tc st))
                  (sc_al_del Z.eqb k (ss_ttxn st)) (ss_handles st), SOOk)
      end
  | SMutate i t =>
      match nth_error (ss_handles st) i with
      | None => (st, SOErr)
      | Some v =>
          let v' := {| so_scalar := t; so_ref := so_ref v |} in
          (sc_upd st (sc_al_set Nat.eqb (so_ref v) t (ss_heap st)) (ss_next st) (ss_tc st) (ss_ttxn st)
                  (sc_set_nth i v' (ss_handles st)), SOOk)
      end
  | SCommitTxn =>
      ({| ss_mode := m; ss_heap := ss_heap st; ss_next := ss_next st; ss_tc := [];
          ss_bc := sc_merge (ss_tc st) (ss_bc st); ss_sc := ss_sc st;
          ss_ttxn := ss_ttxn st; ss_tblk := ss_ttxn st; ss_tbase := ss_tbase st;
          ss_handles := ss_handles st |}, SOOk)
  | SDiscardTxn =>
      ({| ss_mode := m; ss_heap := ss_heap st; ss_next := ss_next st; ss_tc := [];
          ss_bc := ss_bc st; ss_sc := ss_sc st;
          ss_ttxn := ss_tblk st; ss_tblk := ss_tblk st; ss_tbase := ss_tbase st;
          ss_handles := ss_handles st |}, SOOk)
  | SCommitBlock =>
      ({| ss_mode := m; ss_heap := ss_heap st; ss_next := ss_next st; ss_tc := ss_tc st;
          ss_bc := []; ss_sc := ss_bc st :: ss_sc st;
          ss_ttxn := ss_ttxn st; ss_tblk := ss_tblk st; ss_tbase := ss_tblk st;
          ss_handles := ss_handles st |}, SOOk)
  | SDiscardBlock =>
      ({| ss_mode := m; ss_heap := ss_heap st; ss_next := ss_next st; ss_tc := [];
          ss_bc := []; ss_sc := ss_sc st;
          ss_ttxn := ss_tbase st; ss_tblk := ss_tbase st; ss_tbase := ss_tbase st;
          ss_handles := ss_handles st |}, SOOk)
  | SInsertRej _ => (st, SOErr)
  end.

Definition sc_init (m : sc_mode) : sc_state :=
  {| ss_mode := m; ss_heap := []; ss_next := O; ss_tc := []; ss_bc := []; ss_sc := [];
     ss_ttxn := []; ss_tblk := []; ss_tbase := []; ss_handles := [] |}.

Fixpoint sc_run (st : sc_state) (ops : list sc_op) : sc_state * list sc_out :=
  match ops with
  | [] => (st, [])
  | o :: tl => let '(st1, out) := sc_step st o in
               let '(st2, outs) := sc_run st1 tl in (st2, out :: outs)
  end.

(* what the cache alone would answer for a key (None = miss) and what the trie holds *)
Definition sc_cache_view (st : sc_state) (k : Z) : option sc_data :=
  match sc_lookup (sc_layers st) k with LHit o => Some (sc_deref (ss_heap st) o) | LMiss => None end.
Definition sc_trie_view (st : sc_state) (k : Z) : option sc_data := sc_al_get Z.eqb k (ss_ttxn st).

(* operations a transaction can do *)
Definition sc_is_txn_op (o : sc_op) : bool :=
  match o with SGet _ | SInsert _ _ | SInsertH _ _ | SDelete _ | SMutate _ _ | SInsertRej _ => true | _ => false end.
