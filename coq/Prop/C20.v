(* C20: The query database records every finalized bridge and pool event.
   Only statements; each is closed by [exact] of a lemma in Proof/EventMerge.v. The merger table is
   Gen/EventMergers.v (regenerated from smartcontract/dbs/event on every run). *)
From ZC Require Import Model.EventMerge Proof.EventMerge.
Open Scope Z_scope.

(* additive tags (withEventMerge with a function that adds): per event index (provider + reward type, client ...),
   per field of the payload (for the stake pool reward: Reward, DelegateRewards, DelegatePenalties) and per subkey of a
   map field (delegate pool id) the merged events carry exactly the total of the events of the block - whatever
   fields are zero or empty in the individual events *)
Theorem C20_additive_tags_preserve_sum :
  forall n f k idx es, Forall (emf_shaped n) es ->
    emf_idx_total f k idx (emf_merge es) = emf_idx_total f k idx es.
Proof. exact emf_merge_total. Qed.
Print Assumptions C20_additive_tags_preserve_sum.

(* the same for the one-amount view used by the block cases *)
Theorem C20_additive_amounts_preserve_sum :
  forall es, Forall em_single es -> em_all_sum (em_merge es) = em_all_sum es.
Proof. exact em_merge_sum. Qed.
Print Assumptions C20_additive_amounts_preserve_sum.

(* the merge functions of the regenerated table are these additions: every tag whose handler adds to a stored total
   is merged by a function whose body is exactly one addition per consumed field (no early return, no condition), and
   every other withEventMerge merger is one of the keyed-replace tags *)
Theorem C20_merge_functions_add_every_field :
  em_spec_holds gen_event_mergers gen_merge_fns = true /\ em_merge_tags_covered gen_event_mergers = true.
Proof. exact em_spec_table. Qed.
Print Assumptions C20_merge_functions_add_every_field.

Theorem C20_stake_pool_reward_adds_all_three :
  em_fn_of gen_merge_fns "TagStakePoolReward" = Some (MfAdd [("Reward", FScalar); ("DelegateRewards", FMap); ("DelegatePenalties", FMap)]).
Proof. exact em_reward_fn. Qed.
Print Assumptions C20_stake_pool_reward_adds_all_three.

(* tags without middleware keep every event *)
Theorem C20_keep_tags_keep_all : forall es, em_apply EmKeep es = es.
Proof. exact em_keep_all. Qed.
Print Assumptions C20_keep_tags_keep_all.

(* the three bridge tags (burn ticket, authorizer burn, bridge mint) are merged without middleware: nothing
   is overwritten or folded *)
Theorem C20_bridge_tags_keep_every_event :
  map (em_kind_of gen_event_mergers) em_bridge_tags = [Some EmKeep; Some EmKeep; Some EmKeep] /\ em_bridge_rows_keep = true.
Proof. exact em_bridge_tags_keep. Qed.
Print Assumptions C20_bridge_tags_keep_every_event.

(* merging never drops an event of a bridge tag (append-only rows / additive totals): the merged event carries
   one item per event of the block, also when several events share an Ethereum address or a client *)
Theorem C20_no_append_only_event_dropped :
  forall tag events, In tag em_bridge_tags ->
    Forall (fun e => ev_type e = EtStats /\ exists i, ev_data e = [i]) events ->
    forall items, In (tag, items) (fst (em_merge_events gen_event_mergers events)) ->
    List.length items = List.length (filter (em_taken tag) events).
Proof. exact em_no_bridge_event_dropped. Qed.
Print Assumptions C20_no_append_only_event_dropped.

(* the idempotent-upsert tags still use the overwrite middleware; with pairwise distinct indices it keeps every event *)
Theorem C20_overwrite_keeps_distinct_indices :
  forall es, NoDup (map ev_index es) -> List.length (em_overwrite es) = List.length es.
Proof. exact em_overwrite_nodup_keeps_count. Qed.
Print Assumptions C20_overwrite_keeps_distinct_indices.

(* the handler turns every ticket of the merged event into a row *)
Theorem C20_every_burn_ticket_stored : forall merged, em_burn_tickets_stored merged = merged.
Proof. exact em_all_tickets_stored. Qed.
Print Assumptions C20_every_burn_ticket_stored.

(* Non-vacuity: one block with three burns (two to one Ethereum address, two by one client) through the
   generated table: three tickets, three authorizer burns (client 7 totals 12), three rows *)
Example C20_example :
  fst (em_merge_events gen_event_mergers ew_block) =
    [("TagAddBurnTicket", [(101, 5); (102, 7); (103, 9)]); ("TagAuthorizerBurn", [(7, 5); (7, 7); (8, 9)])] /\
  List.length (snd (em_merge_events gen_event_mergers ew_block)) = 1%nat /\
  em_burn_tickets_stored [(101, 5); (102, 7); (103, 9)] = [(101, 5); (102, 7); (103, 9)] /\
  em_total 7 [(7, 5); (7, 7); (8, 9)] = 12.
Proof. exact ew_merge_result. Qed.

Example C20_example_additive :
  fst (em_merge_events gen_event_mergers [ew_lock 7 5; ew_lock 8 9; ew_lock 7 7]) = [("TagLockStakePool", [(7, 12); (8, 9)])].
Proof. exact ew_additive_example. Qed.

Example C20_example_overwrite :
  map ev_data (em_overwrite [ew_lock 7 5; ew_lock 8 9; ew_lock 7 7]) = [[(7, 7)]; [(8, 9)]].
Proof. exact ew_overwrite_example. Qed.

(* a provider rewarded three times with one reward type in a block: the later events have no provider share but
   delegate rewards / a penalty; pool 21 still gets 90 + 5, pool 22 gets 4 *)
Example C20_example_stake_pool_reward :
  emf_merge ew_rewards = [ew_reward 1 10 [(21, 95); (22, 4)] [(22, 1)]; ew_reward 2 3 [] []] /\
  emf_idx_total 1 21 1 (emf_merge ew_rewards) = 95 /\ emf_idx_total 1 22 1 (emf_merge ew_rewards) = 4.
Proof. exact ew_reward_example. Qed.
