(* Lemmas for C19 (bridge burn). *)
From ZC Require Import Model.ZcnBurn.
Open Scope Z_scope.

Lemma zb_get_put_same : forall a n l, zb_get a (zb_put a n l) = n.
Proof.
  induction l as [|[k x] tl IH]; cbn [zb_put zb_get].
  - rewrite Z.eqb_refl. reflexivity.
  - destruct (k =? a) eqn:E; cbn [zb_get]; rewrite E; auto.
Qed.

Lemma zb_get_put_other : forall a b n l, b <> a -> zb_get a (zb_put b n l) = zb_get a l.
Proof.
  induction l as [|[k x] tl IH]; intros Hne; cbn [zb_put zb_get].
  - destruct (b =? a) eqn:E; [apply Z.eqb_eq in E; contradiction|reflexivity].
  - destruct (k =? b) eqn:E; cbn [zb_get].
    + apply Z.eqb_eq in E. subst k. destruct (b =? a) eqn:E2; [apply Z.eqb_eq in E2; contradiction|reflexivity].
    + destruct (k =? a); auto.
Qed.

Lemma zb_wrap_small : forall z, - zb_two63 <= z < zb_two63 -> zb_wrap_i64 z = z.
Proof.
  intros z H. unfold zb_wrap_i64, zb_two63, zb_two64 in *.
  rewrite Z.mod_small; lia.
Qed.

(* a burn succeeds exactly when the value reaches the minimum and a non-empty address decodes *)
Lemma zb_burn_succeeds_iff : forall st client value p,
  snd (zb_step st (ZbBurn client value p)) <> ZbFail <-> (zb_min st <= value /\ exists a, p = ZbAddress a).
Proof.
  intros st client value p. cbn [zb_step].
  destruct (value <? zb_min st) eqn:E.
  - apply Z.ltb_lt in E. cbn [snd]. split; [intros H; contradiction|intros [H _]; lia].
  - apply Z.ltb_ge in E. destruct p as [| |a]; cbn [snd].
    + split; [intros H; contradiction|intros [_ [a Ha]]; discriminate].
    + split; [intros H; contradiction|intros [_ [a Ha]]; discriminate].
    + split; [intros _; split; [exact E|exists a; reflexivity]|intros _; discriminate].
Qed.

(* what a successful burn does, in any state *)
Lemma zb_burn_effect : forall st client value p st1 tr a n,
  zb_step st (ZbBurn client value p) = (st1, ZbBurned tr a n) ->
  p = ZbAddress a /\ zb_min st <= value /\
  tr = [(client, zb_wallet, value)] /\
  n = zb_wrap_i64 (zb_get a (zb_nonces st) + 1) /\
  zb_get a (zb_nonces st1) = n /\
  (forall b, b <> a -> zb_get b (zb_nonces st1) = zb_get b (zb_nonces st)) /\
  zb_min st1 = zb_min st.
Proof.
  intros st client value p st1 tr a n H. cbn [zb_step] in H.
  destruct (value <? zb_min st) eqn:E; [discriminate|]. apply Z.ltb_ge in E.
  destruct p as [| |a']; try discriminate. inversion H; subst. cbn [zb_nonces zb_min].
  repeat split; auto.
  - apply zb_get_put_same.
  - intros b Hb. apply zb_get_put_other. congruence.
Qed.

(* a refused request (burn below the minimum, undecodable payload, empty address, refused
   update) changes nothing and queues nothing *)
Lemma zb_fail_noop : forall st o st1, zb_step st o = (st1, ZbFail) -> st1 = st.
Proof.
  intros st o st1 H. destruct o as [client value p|owner parsed newmin]; cbn [zb_step] in H.
  - destruct (value <? zb_min st); [inversion H; reflexivity|].
    destruct p; inversion H; reflexivity.
  - destruct (owner && parsed && negb (newmin <? 1)); inversion H; reflexivity.
Qed.

Lemma zb_below_min_or_no_address_fails : forall st client value p,
  value < zb_min st \/ p = ZbMalformed \/ p = ZbEmptyAddress ->
  zb_step st (ZbBurn client value p) = (st, ZbFail).
Proof.
  intros st client value p H. cbn [zb_step].
  destruct (value <? zb_min st) eqn:E; [reflexivity|]. apply Z.ltb_ge in E.
  destruct H as [H|[H|H]]; [lia|subst; reflexivity|subst; reflexivity].
Qed.

Lemma zb_run_cons : forall st o tl,
  zb_run st (o :: tl) =
  (fst (zb_run (fst (zb_step st o)) tl), snd (zb_step st o) :: snd (zb_run (fst (zb_step st o)) tl)).
Proof.
  intros. cbn [zb_run]. destruct (zb_step st o) as [st1 out]. cbn [fst snd].
  destruct (zb_run st1 tl); reflexivity.
Qed.

Lemma zb_run_length : forall ops st, length (snd (zb_run st ops)) = length ops.
Proof.
  induction ops as [|o tl IH]; intros st; [reflexivity|].
  rewrite zb_run_cons. cbn [snd length]. rewrite IH. reflexivity.
Qed.

Lemma zb_count_bounds : forall a outs, 0 <= zb_count a outs <= Z.of_nat (length outs).
Proof.
  induction outs as [|o tl IH]; cbn [zb_count length]; [lia|].
  rewrite Nat2Z.inj_succ. destruct o as [tr a' n| |]; try lia.
  destruct (a' =? a); lia.
Qed.

(* the nonce of an address counts the successful burns to it *)
Lemma zb_nonce_counts_gen : forall a ops st,
  0 <= zb_get a (zb_nonces st) ->
  zb_get a (zb_nonces st) + zb_count a (snd (zb_run st ops)) < zb_two63 ->
  zb_get a (zb_nonces (fst (zb_run st ops))) = zb_get a (zb_nonces st) + zb_count a (snd (zb_run st ops)).
Proof.
  induction ops as [|o tl IH]; intros st H0 Hlt; [cbn; lia|].
  rewrite zb_run_cons in *. cbn [fst snd] in *.
  destruct (zb_step st o) as [st1 out] eqn:ES. cbn [fst snd] in *.
  pose proof (zb_count_bounds a (snd (zb_run st1 tl))) as Hb.
  destruct out as [tr a' n| |]; cbn [zb_count] in *.
  - destruct o as [client value p|owner parsed newmin].
    2:{ cbn [zb_step] in ES. destruct (owner && parsed && negb (newmin <? 1)); discriminate. }
    destruct (zb_burn_effect _ _ _ _ _ _ _ _ ES) as (_ & _ & _ & Hn & Hg & Ho & _).
    destruct (a' =? a) eqn:E.
    + apply Z.eqb_eq in E. subst a'.
      assert (Hn' : n = zb_get a (zb_nonces st) + 1).
      { rewrite Hn. apply zb_wrap_small. unfold zb_two63 in *. lia. }
      rewrite IH; rewrite Hg, Hn'; lia.
    + apply Z.eqb_neq in E. rewrite IH; rewrite Ho by congruence; lia.
  - destruct o as [client value p|owner parsed newmin]; cbn [zb_step] in ES.
    + destruct (value <? zb_min st); [discriminate|]. destruct p; discriminate.
    + destruct (owner && parsed && negb (newmin <? 1)); inversion ES; subst.
      rewrite (IH {| zb_min := newmin; zb_nonces := zb_nonces st |}); cbn [zb_nonces]; auto.
  - apply zb_fail_noop in ES. subst st1. apply IH; assumption.
Qed.

Lemma zb_nonce_counts : forall min ops a,
  Z.of_nat (length ops) < zb_two63 ->
  zb_get a (zb_nonces (fst (zb_run (zb_init min) ops))) = zb_count a (snd (zb_run (zb_init min) ops)).
Proof.
  intros min ops a Hl.
  pose proof (zb_count_bounds a (snd (zb_run (zb_init min) ops))) as Hb. rewrite zb_run_length in Hb.
  rewrite zb_nonce_counts_gen; cbn [zb_init zb_nonces zb_get]; lia.
Qed.

(* in every reachable state a successful burn raises the nonce of its address by exactly one and
   leaves every other nonce alone *)
Lemma zb_reachable_plus_one : forall min ops client value p st1 tr a n,
  Z.of_nat (length ops) < zb_two63 - 1 ->
  let st := fst (zb_run (zb_init min) ops) in
  zb_step st (ZbBurn client value p) = (st1, ZbBurned tr a n) ->
  tr = [(client, zb_wallet, value)] /\
  n = zb_get a (zb_nonces st) + 1 /\
  zb_get a (zb_nonces st1) = zb_get a (zb_nonces st) + 1 /\
  (forall b, b <> a -> zb_get b (zb_nonces st1) = zb_get b (zb_nonces st)).
Proof.
  intros min ops client value p st1 tr a n Hl st ES.
  destruct (zb_burn_effect _ _ _ _ _ _ _ _ ES) as (_ & _ & Ht & Hn & Hg & Ho & _).
  assert (Hc : zb_get a (zb_nonces st) = zb_count a (snd (zb_run (zb_init min) ops))).
  { subst st. apply zb_nonce_counts. lia. }
  pose proof (zb_count_bounds a (snd (zb_run (zb_init min) ops))) as Hb. rewrite zb_run_length in Hb.
  assert (Hn' : n = zb_get a (zb_nonces st) + 1).
  { rewrite Hn. apply zb_wrap_small. unfold zb_two63 in *. lia. }
  repeat split; auto. rewrite Hg. exact Hn'.
Qed.
