// Engine E-storage: generated histories of real storagesc transactions on a real
// StorageSmartContract / StateContext (in-memory MPT). After every transaction the token/size
// accounting projection is enumerated, the property statement (-prop Cxx) is evaluated on it
// (executable oracle, independent of the Coq model) and the history is emitted as a Gallina
// case for the model in coq/Model/Storage.v.
package main

import (
	"encoding/json"
	"fmt"
	"os"
	"runtime/debug"
	"runtime/pprof"
	"strings"

	"verifharness/vh"
)

type fail struct{ kind, desc string }

// evalRun evaluates the property oracle after every transaction of an executed history.
func dumpRun(run *Run) {
	for i, st := range run.Steps {
		fmt.Printf("step %d %s ok=%v err=%s\n", i, st.Kind, st.OK, st.Err)
		for _, l := range sortedLabels(st.Post.Allocs) {
			a := st.Post.Allocs[l]
			if a == nil {
				continue
			}
			fmt.Printf("   alloc %d wp=%d cp=%d mtc=%d mb=%d used=%d exp=%d:", l, a.WP, a.CP, a.MTC, a.MB, a.Used, a.Exp)
			for _, d := range a.BAs {
				fmt.Printf(" [b%d size=%d cpiv=%d used=%d wp=%d lf=%d ls=%d]", d.Blobber, d.Size, d.CPIV, d.Used, d.WP, d.LF, d.LS)
			}
			fmt.Println()
		}
	}
}

func evalRun(run *Run, prop string) []fail {
	if os.Getenv("STORAGE_DUMP") != "" {
		dumpRun(run)
	}
	var out []fail
	broken := map[int]bool{}
	prev := run.Init
	for _, st := range run.Steps {
		last := ""
		for n := 0; n < 16; n++ {
			k, d := check(prop, run, prev, st.Post, st, broken)
			if k == "" || k == last {
				break
			}
			last = k
			out = append(out, fail{k, d})
		}
		prev = st.Post
	}
	return out
}

// runHist executes a complete history and evaluates the oracle.
func runHist(h Hist, prop string) (*Run, []fail) {
	run := NewRun(h)
	for _, op := range h.Ops {
		run.Step(op)
	}
	return run, evalRun(run, prop)
}

func hasFail(fs []fail, kind string) bool {
	for _, f := range fs {
		if f.kind == kind {
			return true
		}
	}
	return false
}

var scripts = []string{"killed-replace", "price-drop-extend", "kill-twice-close", "challenge-cycle", "challenge-cycle", "exhaust-write-pool",
	"fail-then-replace-alive", "upload-delete-close", "price-drop-all-extend", "duplicate-blobber-alloc", "tiny-validator-reward", "odd-extend-then-replace", "ineligible-candidates", "read-pool-lock-for-other", "delete-kill-replace", "timed-out-challenge-then-close"}

// the paths a property depends on most are scripted more often when that property is checked
var scriptsMore = map[string][]string{
	"C12": {"fail-then-replace-alive", "fail-then-replace-alive", "price-drop-all-extend", "upload-delete-close", "tiny-validator-reward", "delete-kill-replace", "delete-kill-replace", "delete-kill-replace"},
	"C14": {"upload-delete-close", "upload-delete-close", "fail-then-replace-alive", "time-unit-change-close", "time-unit-change-close", "time-unit-change-close", "timed-out-challenge-then-close", "timed-out-challenge-then-close", "timed-out-challenge-then-close"},
	"C09": {"price-drop-all-extend", "price-drop-all-extend", "fail-then-replace-alive", "upload-delete-close", "tiny-validator-reward", "tiny-validator-reward", "tiny-validator-reward", "read-pool-lock-for-other", "read-pool-lock-for-other", "read-pool-lock-for-other"},
	"C13": {"fail-then-replace-alive", "duplicate-blobber-alloc", "duplicate-blobber-alloc", "odd-extend-then-replace", "odd-extend-then-replace", "odd-extend-then-replace", "ineligible-candidates", "ineligible-candidates", "ineligible-candidates"},
	"C24": {"free-out-of-order-replay", "assigner-key-rotation", "assigner-key-rotation", "assigner-key-rotation"},
}

var scriptsC04 = []string{"third-party-extend", "owner-handover", "third-party-extend", "owner-handover", "killed-replace", "price-drop-extend", "kill-twice-close", "challenge-cycle",
	"free-out-of-order-replay", "free-out-of-order-replay", "free-out-of-order-replay", "assigner-key-rotation", "assigner-key-rotation"}

func histKey(h Hist) string {
	b, _ := json.Marshal(h.Ops)
	return h.Salt + string(b)
}

func main() {
	o := vh.ParseFlags()
	debug.SetGCPercent(400)
	if pf := os.Getenv("STORAGE_PROF"); pf != "" {
		f, _ := os.Create(pf)
		pprof.StartCPUProfile(f)
		defer pprof.StopCPUProfile()
	}
	prop := o.Prop
	if prop == "" {
		prop = "C12"
	}
	rep := vh.NewReport("storage", prop, o)
	rep.Rule = "histories of real storagesc transactions (new/free allocation, write-pool lock, commit connection upload/delete/rollback, " +
		"generate challenge + challenge response with real validator tickets, update allocation extend/add/replace blobber, finalize, cancel, " +
		"read-pool lock/unlock, read marker, kill/shutdown blobber, update blobber settings) on 3-7 staked blobbers, 1-3 allocations; " +
		"non-trivial = at least one transaction changed the projection and one was rejected, and (C12) a challenge pool was non-zero at some point; distinct by full op list"
	cf := &vh.CasesFile{Imports: []string{"Base.Corr", "Model.F64", "Model.Storage", "Corr.Storage"}, CaseType: "ss_case", CheckFn: "ss_check", Shard: 25}

	shrunk := map[string]bool{}
	handle := func(h Hist, toCoq bool, run *Run) {
		var fails []fail
		if run == nil {
			run, fails = runHist(h, prop)
		} else {
			fails = evalRun(run, prop)
		}
		for k, n := range run.Kinds {
			rep.CountN(k, n)
		}
		changed, rejected, cpNonZero := false, false, false
		for _, st := range run.Steps {
			if st.OK {
				changed = true
			} else {
				rejected = true
			}
			for _, a := range st.Post.Allocs {
				if a != nil && a.CP > 0 {
					cpNonZero = true
				}
			}
		}
		rep.Case(histKey(h), changed && rejected && (prop != "C12" || cpNonZero), h)
		if toCoq {
			cf.Add(coqCase(run))
			rep.CaseInputs = append(rep.CaseInputs, h)
		}
		for _, f := range fails {
			if shrunk[f.kind] {
				continue
			}
			shrunk[f.kind] = true
			fk := f.kind
			nShrink := 0
			keep := vh.ShrinkIdx(len(h.Ops), func(keep []int) bool {
				h2 := h
				nShrink++
				h2.Salt = fmt.Sprintf("%s-s%d", h.Salt, nShrink) // fresh identities: nothing remembered from earlier runs
				h2.Ops = nil
				for _, i := range keep {
					h2.Ops = append(h2.Ops, h.Ops[i])
				}
				_, f2 := runHist(h2, prop)
				return hasFail(f2, fk)
			})
			h2 := h
			h2.Salt = h.Salt + "-min"
			h2.Ops = nil
			for _, i := range keep {
				h2.Ops = append(h2.Ops, h.Ops[i])
			}
			rep.Violate(prop+":"+fk, f.desc, h2)
		}
	}

	finish := func() {
		files, err := cf.Write(o.Out, prop)
		if err != nil {
			panic(err)
		}
		rep.CaseFiles = files
		rep.ShardSize = 25
		rep.Write(o.Out)
	}

	var rh Hist
	if o.LoadReplay(&rh) {
		if len(rh.Blobbers) == 0 {
			// a replay recorded by another engine of the same check: nothing to re-run here
			rep.Note("replay input is not a storage history; skipped")
			finish()
			return
		}
		handle(rh, true, nil)
		finish()
		return
	}

	if os.Getenv("STORAGE_ERRS") != "" {
		dbgErrs = map[string]int{}
		defer func() {
			for k, v := range dbgErrs {
				fmt.Printf("%5d %s\n", v, k)
			}
		}()
	}
	rnd := vh.NewRand(o.Seed)
	nh := o.N(100, 1500)
	if s := os.Getenv("STORAGE_HISTORIES"); s != "" {
		fmt.Sscan(s, &nh)
	}
	for i := 0; i < nh; i++ {
		hr := rnd.Fork()
		h := genHist(hr, prop, i)
		g := &Gen{R: hr, Prop: prop, step: -1}
		if hr.Chance(1, 2) {
			g.script, g.step = scripts[hr.Intn(len(scripts))], 0
			if prop == "C04" {
				g.script = scriptsC04[hr.Intn(len(scriptsC04))]
			}
			if more := scriptsMore[prop]; len(more) > 0 && hr.Chance(1, 3) {
				g.script = more[hr.Intn(len(more))]
			}
			if h.Ent {
				g.script = "enterprise-close"
			}
			if g.script == "timed-out-challenge-then-close" && hr.Chance(2, 3) {
				h.Conf.BlobberSlash = 0 // legal via update_settings
			}
			if g.script == "odd-extend-then-replace" {
				// three data shards + parity + a spare blobber
				for len(h.Blobbers) < 5 {
					h.Blobbers = append(h.Blobbers, h.Blobbers[hr.Intn(len(h.Blobbers))])
				}
			}
			if g.script == "tiny-validator-reward" {
				// several rewarded validators and a non-zero validator share
				if h.Conf.ValidatorReward == 0 || h.Conf.ValidatorReward > 0.1 {
					h.Conf.ValidatorReward = 0.025
				}
				if h.Conf.ValidatorsPerChal < 2 {
					h.Conf.ValidatorsPerChal = 2 + hr.Intn(2)
				}
				if h.NVal < h.Conf.ValidatorsPerChal {
					h.NVal = h.Conf.ValidatorsPerChal
				}
				h.Conf.NumValRewarded = h.Conf.ValidatorsPerChal
			}
		}
		run := NewRun(h)
		nops := hr.Range(5, o.N(40, 80))
		for j := 0; j < nops; j++ {
			op := g.Next(run)
			run.Step(op)
			h.Ops = append(h.Ops, op)
		}
		handle(h, true, run)
	}
	if os.Getenv("STORAGE_DEBUG") != "" {
		for k, v := range rep.Histogram {
			if strings.Contains(k, os.Getenv("STORAGE_DEBUG")) {
				fmt.Println(k, v)
			}
		}
	}
	finish()
}
