(* Model of SimpleNodes.reduce (smartcontract/minersc/models.go) -- view-change node selection,
   property C39.  Definitions only; proofs are in Proof/Reduce.v.
   A candidate is (id, total stake); ids are the integers their (equal-length) strings denote,
   stakes are uint64 and only compared.  Explicit inputs for what the Go code takes from its
   environment: the iteration order of the map (the [nodes] list is the map content as iterated),
   [xc] = int(math.Ceil(xPercent*float64(maxNodes))) (float arithmetic is not modelled; every
   theorem holds for any xc in range), [perm_of n] = rand.New(rand.NewSource(seed)).Perm(n).
   [fixed] selects between the code as it is (false: the tie range start is tracked with
   "s == 0", F-39) and the proposed repair (true: first match only). *)
From Coq Require Export List ZArith Bool Arith Lia.
Export ListNotations.
Open Scope Z_scope.

Definition rd_node : Type := (Z * Z)%type.
Definition rd_id (n : rd_node) : Z := fst n.
Definition rd_stake (n : rd_node) : Z := snd n.
Definition rd_dflt : rd_node := (0, 0).

(* less(i,j): equal stake -> smaller id first; else greater stake first *)
Definition rd_less (a b : rd_node) : bool :=
  if Z.eqb (rd_stake a) (rd_stake b) then Z.ltb (rd_id a) (rd_id b) else Z.gtb (rd_stake a) (rd_stake b).

(* sort.SliceStable *)
Fixpoint rd_ins (x : rd_node) (l : list rd_node) : list rd_node :=
  match l with
  | [] => [x]
  | y :: t => if rd_less y x then y :: rd_ins x t else x :: y :: t
  end.
Definition rd_sort (l : list rd_node) : list rd_node := fold_right rd_ins [] l.

Definition rd_in_prev (prev : option (list Z)) (n : rd_node) : bool :=
  match prev with
  | None => false
  | Some ids => existsb (Z.eqb (rd_id n)) ids
  end.

(* the loop finding the range [s, e) of entries whose stake equals [stake]:
     s, e := 0, len; for i, sn := range newNodes {
       if s == 0 && sn.TotalStaked == stake { s = i } else if sn.TotalStaked < stake { e = i; break } }
   [found] is only consulted by the repaired variant *)
Fixpoint rd_scan (fixed : bool) (l : list rd_node) (i : nat) (stake : Z) (s : nat) (found : bool) (total : nat)
  : nat * nat :=
  match l with
  | [] => (s, total)
  | sn :: t =>
      if (if fixed then negb found else Nat.eqb s 0) && Z.eqb (rd_stake sn) stake
      then rd_scan fixed t (S i) stake i true total
      else if Z.ltb (rd_stake sn) stake then (s, i)
      else rd_scan fixed t (S i) stake s found total
  end.

(* for _, j := range perm { if len(selected) < maxNodes { selected = append(selected, group[j]) } } *)
Definition rd_pick (group : list rd_node) (perm : list nat) (room : Z) : list rd_node :=
  firstn (Z.to_nat room) (map (fun j => nth j group rd_dflt) perm).

(* None = the Go code panics (slice bounds out of range) *)
Definition rd_reduce (fixed : bool) (nodes : list rd_node) (prev : option (list Z))
  (limit xc : Z) (perm_of : nat -> list nat) : option (list rd_node * Z) :=
  let pmb := rd_sort (filter (rd_in_prev prev) nodes) in
  let new0 := filter (fun n => negb (rd_in_prev prev n)) nodes in
  let maxn := Z.min limit (Z.of_nat (length nodes)) in
  let x := Z.min (Z.of_nat (length pmb)) xc in
  let y := maxn - x in
  if Z.ltb x 0 then None
  else
    let sel0 := firstn (Z.to_nat x) pmb in
    let news := rd_sort (new0 ++ skipn (Z.to_nat x) pmb) in
    if Z.leb (Z.of_nat (length news)) y then Some (sel0 ++ news, maxn)
    else if Z.gtb y 0 then
      let stake := rd_stake (nth (Z.to_nat (y - 1)) news rd_dflt) in
      let '(s, e) := rd_scan fixed news 0 stake 0 false (length news) in
      let sel1 := sel0 ++ firstn s news in
      let group := firstn (e - s) (skipn s news) in
      Some (sel1 ++ rd_pick group (perm_of (length group)) (maxn - Z.of_nat (length sel1)), maxn)
    else Some (sel0, maxn).

(* the specification of the second phase, free of the index scan: everything strictly above the
   cut-off stake, then the first free slots of the seeded permutation applied to ALL candidates
   tied at the cut-off stake *)
Definition rd_phase2_spec (news : list rd_node) (y : Z) (perm_of : nat -> list nat) : list rd_node :=
  let c := rd_stake (nth (Z.to_nat (y - 1)) news rd_dflt) in
  let above := filter (fun n => Z.gtb (rd_stake n) c) news in
  let tied := filter (fun n => Z.eqb (rd_stake n) c) news in
  above ++ rd_pick tied (perm_of (length tied)) (y - Z.of_nat (length above)).

(* where the code as it is deviates: the tie group opens the list and has at least two members *)
Definition rd_trigger (news : list rd_node) (y : Z) : bool :=
  let c := rd_stake (nth (Z.to_nat (y - 1)) news rd_dflt) in
  Nat.eqb (length (filter (fun n => Z.gtb (rd_stake n) c) news)) 0 &&
  Nat.leb 2 (length (filter (fun n => Z.eqb (rd_stake n) c) news)).
