(* C16: Vesting pays each destination at most its amount, on schedule.
   Only statements; each is closed by [exact] of a lemma in Proof/Vesting*.v.

   The model (Model/Vesting.v) takes the function that computes the share of a period as a
   parameter; [vs_share_f64] is the code's (currency.MultFloat64 on float64, bit for bit on
   Coq.Floats.SpecFloat), [vs_share_exact] the same share in integers.
   For the code as it is, the full statement is false:
     - at expiry the whole remainder is paid as Coin(float64(left) * 1.0); for a remainder above
       2^53 whose float64 rounds up this is more than the remainder (C16_amount_refuted), after
       which left()/excess() fail for ever: the owner can neither withdraw nor delete, and a pool
       without excess can never pay at all (C16_owner_locked_out_witness);
     - inside the period the float64 product can exceed the exact share by a rounding step
       (C16_schedule_refuted).
   It is proved for the code for all amounts below 2^53 except the schedule clause
   (C16_*_partial, using Flocq for the float facts), and in full, schedule included, for every
   share function that pays the remainder at the end and never more than the exact share before
   (C16_*_exact_share: what the contract computes once the share is taken in integers). *)
From ZC Require Import Model.Vesting Proof.Vesting Proof.VestingWitness Proof.VestingF64.
Open Scope Z_scope.

Definition C16_full_statement : Prop := vs_full_statement vs_share_f64.

Theorem C16_amount_refuted :
  ~ (forall conf ops, Forall (vs_op_wf vs_two64) ops -> vs_st_inv vs_two64 (fst (vs_run vs_share_f64 conf None ops))).
Proof. exact vw_refuted_amount. Qed.
Print Assumptions C16_amount_refuted.

Theorem C16_schedule_refuted :
  ~ (forall conf ops, Forall (vs_op_wf vs_two64) ops -> vs_st_sched (fst (vs_run vs_share_f64 conf None ops))).
Proof. exact vw_refuted_schedule. Qed.
Print Assumptions C16_schedule_refuted.

Theorem C16_full_statement_refuted : ~ C16_full_statement.
Proof. exact vw_refuted. Qed.
Print Assumptions C16_full_statement_refuted.

(* amount 2^53+3: with 10 tokens of excess the destination is paid amount+1 and both the owner's
   withdrawal and delete fail; with no excess every later request fails *)
Theorem C16_owner_locked_out_witness :
  snd (vs_run vs_share_f64 vw_conf None vw_ops_excess) =
    [VsOk [(0, vs_contract, vw_amount + 10)]; VsOk [(vs_contract, 1, vw_amount + 1)]; VsFail; VsFail] /\
  snd (vs_run vs_share_f64 vw_conf None vw_ops_exact) =
    [VsOk [(0, vs_contract, vw_amount)]; VsFail; VsFail; VsFail; VsFail].
Proof. exact vw_owner_locked_out. Qed.
Print Assumptions C16_owner_locked_out_witness.

(* ---- the code (float64 share), every history whose amounts are below 2^53 ----
   vs_st_inv: for every destination 0 <= vested <= amount and start <= last transfer <= expiry;
   the pool balance is at least the sum of the unvested remainders. *)
Theorem C16_vested_le_amount_and_pool_covers_partial :
  forall conf ops, Forall (vs_op_wf (2 ^ 53)) ops ->
    vs_st_inv (2 ^ 53) (fst (vs_run vs_share_f64 conf None ops)).
Proof. exact vs_f64_run_inv. Qed.
Print Assumptions C16_vested_le_amount_and_pool_covers_partial.

(* vested never decreases: every request, every share function, no side condition *)
Theorem C16_vested_monotone :
  forall share conf p o p', fst (vs_step share conf (Some p) o) = Some p' ->
    vs_dests_mono (vp_dests p) (vp_dests p').
Proof. exact vs_step_mono. Qed.
Print Assumptions C16_vested_monotone.

(* by expiry a destination can receive exactly its amount *)
Theorem C16_exact_at_expiry_partial :
  forall conf p c now d, vs_inv (2 ^ 53) p ->
    c <> vp_owner p -> vp_expire p <= now -> vs_find c (vp_dests p) = Some d -> 0 < vs_rem d ->
    exists p' d', vs_step vs_share_f64 conf (Some p) (VsUnlock c now) = (Some p', VsOk [(vs_contract, c, vs_rem d)]) /\
      vs_find c (vp_dests p') = Some d' /\ vd_vested d' = vd_amount d' /\ vd_amount d' = vd_amount d /\
      vp_balance p' = vp_balance p - vs_rem d.
Proof. exact vs_f64_exact_at_expiry. Qed.
Print Assumptions C16_exact_at_expiry_partial.

(* the owner can always withdraw the excess: the request is refused only when there is none *)
Theorem C16_owner_withdraws_excess_partial :
  forall conf p now, vs_inv (2 ^ 53) p ->
    let excess := vp_balance p - vs_rem_sum (vp_dests p) in
    vs_step vs_share_f64 conf (Some p) (VsUnlock (vp_owner p) now) =
    if excess =? 0 then (Some p, VsFail)
    else (Some (vs_set_balance p (vs_rem_sum (vp_dests p))), VsOk [(vs_contract, vp_owner p, excess)]).
Proof. exact vs_f64_owner_unlock. Qed.
Print Assumptions C16_owner_withdraws_excess_partial.

(* ... and delete the pool, as soon as the clock is not behind the last transfer: everything the
   pool holds is paid out and the pool is gone *)
Theorem C16_owner_deletes_pool_partial :
  forall conf p now, vs_inv (2 ^ 53) p ->
    Forall (fun d => vd_move d <= vs_clamp p now) (vp_dests p) ->
    exists tr, vs_step vs_share_f64 conf (Some p) (VsDelete (vp_owner p) now) = (None, VsOk tr) /\
               vs_tr_sum tr = vp_balance p.
Proof. exact vs_f64_delete. Qed.
Print Assumptions C16_owner_deletes_pool_partial.

(* ---- the full statement, for the share taken in integers, all amounts up to 2^64 ---- *)
Theorem C16_full_statement_exact_share : vs_full_statement vs_share_exact.
Proof. exact vs_exact_full. Qed.
Print Assumptions C16_full_statement_exact_share.

Theorem C16_owner_and_destination_rights_exact_share :
  (forall conf p now, vs_inv vs_two64 p ->
     Forall (fun d => vd_move d <= vs_clamp p now) (vp_dests p) ->
     exists tr, vs_step vs_share_exact conf (Some p) (VsDelete (vp_owner p) now) = (None, VsOk tr) /\
                vs_tr_sum tr = vp_balance p) /\
  (forall conf p c now d, vs_inv vs_two64 p ->
     c <> vp_owner p -> vp_expire p <= now -> vs_find c (vp_dests p) = Some d -> 0 < vs_rem d ->
     exists p' d', vs_step vs_share_exact conf (Some p) (VsUnlock c now) = (Some p', VsOk [(vs_contract, c, vs_rem d)]) /\
       vs_find c (vp_dests p') = Some d' /\ vd_vested d' = vd_amount d' /\ vd_amount d' = vd_amount d /\
       vp_balance p' = vp_balance p - vs_rem d) /\
  (forall conf p now, vs_inv vs_two64 p ->
     let excess := vp_balance p - vs_rem_sum (vp_dests p) in
     vs_step vs_share_exact conf (Some p) (VsUnlock (vp_owner p) now) =
     if excess =? 0 then (Some p, VsFail)
     else (Some (vs_set_balance p (vs_rem_sum (vp_dests p))), VsOk [(vs_contract, vp_owner p, excess)])).
Proof. exact vs_exact_rights. Qed.
Print Assumptions C16_owner_and_destination_rights_exact_share.

(* Non-vacuity: a pool with two destinations through unlock, trigger, owner withdrawal, stop,
   expiry and delete, on the code's float64 share; every state met satisfies the hypotheses above *)
Example C16_example :
  snd (vs_run vs_share_f64 vw_conf None
    [VsAdd 0 1000 1000 (Some 1000) 1000 (100 * vs_second) [(1, 300); (2, 600)];
     VsUnlock 1 1010; VsTrigger 0 1033; VsUnlock 0 1034; VsStop 0 1050 2; VsUnlock 0 1051;
     VsUnlock 1 1100; VsUnlock 1 1101; VsDelete 0 1200])
  = [VsOk [(0, vs_contract, 1000)]; VsOk [(vs_contract, 1, 30)]; VsOk [(vs_contract, 1, 69); (vs_contract, 2, 198)];
     VsOk [(vs_contract, 0, 100)]; VsOk [(vs_contract, 2, 102)]; VsOk [(vs_contract, 0, 300)];
     VsOk [(vs_contract, 1, 201)]; VsFail; VsOk []].
Proof. vm_compute. reflexivity. Qed.
