(* Correspondence for C23: a case is a history of kill / shutdown / reward transactions run
   through the real storagesc and minersc entry points on a real state; observables: per
   transaction success, and after the history every provider record and every stake pool key of
   the universe (all provider types x all ids that occur, callers included). *)
From ZC Require Import Base.Corr Model.StakePool Model.Provider.
Open Scope Z_scope.

Record pvc_pool := { pvc_t : Z; pvc_id : Z; pvc_wallet : Z; pvc_charge_bits : Z; pvc_reward : Z; pvc_dead : bool;
                     pvc_dps : list (Z * Z * Z) (* delegate id, balance, reward *) }.

Record pvc_case := {
  pvc_owner : Z; pvc_slash_bits : Z;
  pvc_provs : list (Z * (Z * bool * bool * Z));   (* id, (type, killed, shut, saved_data) *)
  pvc_pools : list pvc_pool;
  pvc_ops : list pv_op;
  pvc_outs : list bool;
  pvc_universe : list (Z * Z);                    (* (type, id) keys inspected afterwards *)
  pvc_ids : list Z;                               (* provider ids inspected afterwards *)
  pvc_final_pools : list (option (bool * Z * list (Z * Z * Z)));  (* per universe key: dead, reward, delegates *)
  pvc_final_provs : list (option (Z * bool * bool))               (* per id: type, killed, shut *)
}.

Definition pvc_mk_sp (p : pvc_pool) : sp_pool :=
  {| sp_pools := map (fun x => match x with (id, b, r) =>
                   {| dp_id := id; dp_bal := b; dp_reward := r; dp_status := 0; dp_staked_at := 0 |} end) (pvc_dps p);
     sp_reward := pvc_reward p;
     sp_set := {| ss_wallet := pvc_wallet p; ss_maxdel := 100; ss_minstake := 0; ss_charge := f64_of_bits (pvc_charge_bits p) |};
     sp_killed := pvc_dead p |}.

Fixpoint pvc_find_prov (id : Z) (l : list (Z * (Z * bool * bool * Z))) : option pv_prov :=
  match l with
  | [] => None
  | (i, (t, k, s, sd)) :: tl => if i =? id then Some {| pv_type := t; pv_killed := k; pv_shut := s; pv_saved := sd |}
                                else pvc_find_prov id tl
  end.

Fixpoint pvc_find_pool (t id : Z) (l : list pvc_pool) : option sp_pool :=
  match l with
  | [] => None
  | p :: tl => if (pvc_t p =? t) && (pvc_id p =? id) then Some (pvc_mk_sp p) else pvc_find_pool t id tl
  end.

Definition pvc_init (c : pvc_case) : pv_state :=
  {| pv_provs := fun id => pvc_find_prov id (pvc_provs c); pv_pools := fun t id => pvc_find_pool t id (pvc_pools c) |}.

Definition pvc_dp_eqb (p : sp_dpool) (x : Z * Z * Z) : bool :=
  match x with (id, b, r) => (dp_id p =? id) && (dp_bal p =? b) && (dp_reward p =? r) end.

Fixpoint pvc_list_eqb2 {A B} (eqb : A -> B -> bool) (l1 : list A) (l2 : list B) : bool :=
  match l1, l2 with
  | [], [] => true
  | x :: t1, y :: t2 => eqb x y && pvc_list_eqb2 eqb t1 t2
  | _, _ => false
  end.

Definition pvc_pool_eqb (o : option sp_pool) (x : option (bool * Z * list (Z * Z * Z))) : bool :=
  match o, x with
  | None, None => true
  | Some sp, Some (d, r, dps) => Bool.eqb (sp_killed sp) d && (sp_reward sp =? r) && pvc_list_eqb2 pvc_dp_eqb (sp_pools sp) dps
  | _, _ => false
  end.

Definition pvc_prov_eqb (o : option pv_prov) (x : option (Z * bool * bool)) : bool :=
  match o, x with
  | None, None => true
  | Some p, Some (t, k, s) => (pv_type p =? t) && Bool.eqb (pv_killed p) k && Bool.eqb (pv_shut p) s
  | _, _ => false
  end.

Definition pvc_check (c : pvc_case) : bool :=
  let '(st, outs) := pv_run (pvc_owner c) (f64_of_bits (pvc_slash_bits c)) (pvc_init c) (pvc_ops c) in
  list_eqb Bool.eqb outs (pvc_outs c) &&
  pvc_list_eqb2 pvc_pool_eqb (map (fun k => pv_pools st (fst k) (snd k)) (pvc_universe c)) (pvc_final_pools c) &&
  pvc_list_eqb2 pvc_prov_eqb (map (pv_provs st) (pvc_ids c)) (pvc_final_provs c).
