(* Lemmas for C21 (multisig proposals). *)
From ZC Require Import Model.Multisig.
Open Scope Z_scope.

Lemma ms_ref_eqb_eq : forall a b, ms_ref_eqb a b = true <-> a = b.
Proof.
  intros [a1 a2] [b1 b2]. unfold ms_ref_eqb. cbn [fst snd]. rewrite andb_true_iff, !Z.eqb_eq.
  split; [intros [-> ->]; reflexivity|intros H; inversion H; auto].
Qed.

Lemma ms_ref_eqb_refl : forall a, ms_ref_eqb a a = true.
Proof. intros a. apply ms_ref_eqb_eq. reflexivity. Qed.

Lemma ms_ref_eqb_neq : forall a b, a <> b -> ms_ref_eqb a b = false.
Proof. intros a b H. destruct (ms_ref_eqb a b) eqn:E; [apply ms_ref_eqb_eq in E; contradiction|reflexivity]. Qed.

Lemma ms_get_set_same : forall r p l, ms_prop_get r (ms_prop_set r p l) = Some p.
Proof.
  induction l as [|[k x] tl IH]; cbn [ms_prop_set ms_prop_get].
  - rewrite ms_ref_eqb_refl. reflexivity.
  - destruct (ms_ref_eqb k r) eqn:E; cbn [ms_prop_get]; rewrite E; auto.
Qed.

Lemma ms_get_set_other : forall r r' p l, r' <> r -> ms_prop_get r' (ms_prop_set r p l) = ms_prop_get r' l.
Proof.
  induction l as [|[k x] tl IH]; intros Hne; cbn [ms_prop_set ms_prop_get].
  - rewrite ms_ref_eqb_neq by congruence. reflexivity.
  - destruct (ms_ref_eqb k r) eqn:E; cbn [ms_prop_get].
    + apply ms_ref_eqb_eq in E. subst k. rewrite ms_ref_eqb_neq by congruence. reflexivity.
    + destruct (ms_ref_eqb k r'); auto.
Qed.

Lemma ms_get_del : forall r r' l,
  ms_prop_get r' (ms_prop_del r l) = if ms_ref_eqb r r' then None else ms_prop_get r' l.
Proof.
  induction l as [|[k x] tl IH]; cbn [ms_prop_del ms_prop_get]; [destruct (ms_ref_eqb r r'); reflexivity|].
  destruct (ms_ref_eqb k r) eqn:E.
  - apply ms_ref_eqb_eq in E. subst k. rewrite IH. destruct (ms_ref_eqb r r'); reflexivity.
  - cbn [ms_prop_get]. rewrite IH. destruct (ms_ref_eqb r r') eqn:E2; [|reflexivity].
    apply ms_ref_eqb_eq in E2. subst r'. rewrite E. reflexivity.
Qed.

Lemma ms_memz_In : forall x l, ms_memz x l = true <-> In x l.
Proof.
  induction l as [|y tl IH]; cbn [ms_memz In]; [split; [discriminate|intros []]|].
  rewrite orb_true_iff, IH, Z.eqb_eq. tauto.
Qed.

Lemma ms_tid_of_In : forall s t l, ms_tid_of s l = Some t -> In (s, t) l.
Proof.
  induction l as [|[s' t'] tl IH]; intros H; [discriminate|]. cbn [ms_tid_of] in H.
  destruct (s' =? s) eqn:E; [apply Z.eqb_eq in E; inversion H; subst; left; reflexivity|right; auto].
Qed.

Lemma NoDup_app_snoc : forall (l : list Z) x, NoDup l -> ~ In x l -> NoDup (l ++ [x]).
Proof.
  induction l as [|y tl IH]; intros x Hnd Hnin; cbn [app]; [constructor; [intros []|constructor]|].
  inversion Hnd as [|? ? Hy Htl]; subst. constructor.
  - intros Hin. apply in_app_or in Hin. destruct Hin as [Hin|[<-|[]]]; [contradiction|]. apply Hnin. left. reflexivity.
  - apply IH; [exact Htl|]. intros Hin. apply Hnin. right. exact Hin.
Qed.

(* ---------- invariant of reachable states ---------- *)
Definition ms_prop_ok (st : ms_state) (r : Z * Z) (p : ms_prop) : Prop :=
  exists w, ms_wallet_get (fst r) (ms_wallets st) = Some w /\
    NoDup (mp_votes p) /\
    (forall t, In t (mp_votes p) -> exists s, In (s, t) (mw_signers w)) /\
    Z.of_nat (length (mp_votes p)) <= mw_required w /\
    (mp_executed p = true <-> Z.of_nat (length (mp_votes p)) = mw_required w).

Definition ms_inv (st : ms_state) : Prop :=
  (forall k w, ms_wallet_get k (ms_wallets st) = Some w -> 2 <= mw_required w) /\
  (forall r p, ms_prop_get r (ms_props st) = Some p -> ms_prop_ok st r p).

Lemma ms_inv_init : ms_inv ms_init.
Proof. split; intros; discriminate. Qed.

Lemma ms_prune_wallets : forall st now, ms_wallets (ms_prune_head st now) = ms_wallets st.
Proof.
  intros st now. unfold ms_prune_head. destruct (ms_queue st); [reflexivity|].
  destruct (match ms_prop_get _ _ with Some _ => _ | None => _ end); reflexivity.
Qed.

Lemma ms_prune_get : forall st now r p,
  ms_prop_get r (ms_props (ms_prune_head st now)) = Some p -> ms_prop_get r (ms_props st) = Some p.
Proof.
  intros st now r p H. unfold ms_prune_head in H. destruct (ms_queue st) as [|h tl]; [exact H|].
  destruct (match ms_prop_get h _ with Some _ => _ | None => _ end); [|exact H].
  cbn [ms_props] in H. rewrite ms_get_del in H. destruct (ms_ref_eqb h r); [discriminate|exact H].
Qed.

Lemma ms_prune_inv : forall st now, ms_inv st -> ms_inv (ms_prune_head st now).
Proof.
  intros st now [HW HP]. split.
  - intros k w. rewrite ms_prune_wallets. apply HW.
  - intros r p H. apply ms_prune_get in H. destruct (HP r p H) as (w & Hw & Hrest).
    exists w. rewrite ms_prune_wallets. split; assumption.
Qed.

(* ---------- what a vote does (after the head of the queue was pruned) ---------- *)

(* the proposal the vote lands on: the stored one, or a fresh one when none is stored *)
Definition ms_target (st1 : ms_state) (now wallet pid to amount : Z) : ms_prop :=
  match ms_prop_get (wallet, pid) (ms_props st1) with
  | Some p => p
  | None => {| mp_expire := now + ms_week; mp_to := to; mp_amount := amount; mp_votes := []; mp_executed := false |}
  end.

(* a vote is counted (the proposal gains a vote) exactly in the outcomes MsNeed and MsExecuted; then
   everything the property asks of a counting vote holds *)
Lemma ms_vote_counted : forall st signer now wallet pid to amount wf sig_ok rec st' out,
  ms_inv st ->
  ms_step st (MsVote signer now wallet pid to amount wf sig_ok rec) = (st', out) ->
  (exists n, out = MsNeed n) \/ (exists f t a, out = MsExecuted f t a) ->
  let st1 := ms_prune_head st now in
  let p := ms_target st1 now wallet pid to amount in
  wf = true /\ sig_ok = true /\ now < mp_expire p /\ mp_to p = to /\ mp_amount p = amount /\
  mp_executed p = false /\
  exists w tid p', ms_wallet_get wallet (ms_wallets st) = Some w /\ ms_tid_of signer (mw_signers w) = Some tid /\
    ~ In tid (mp_votes p) /\
    ms_prop_get (wallet, pid) (ms_props st') = Some p' /\ mp_votes p' = mp_votes p ++ [tid] /\
    mp_expire p' = mp_expire p /\ mp_to p' = to /\ mp_amount p' = amount /\
    (forall r, r <> (wallet, pid) -> ms_prop_get r (ms_props st') = ms_prop_get r (ms_props st1)) /\
    ms_wallets st' = ms_wallets st /\
    ((exists n, out = MsNeed n /\ n = mw_required w - Z.of_nat (length (mp_votes p')) /\ 0 < n /\ mp_executed p' = false) \/
     (out = MsExecuted wallet to amount /\ Z.of_nat (length (mp_votes p')) = mw_required w /\ mp_executed p' = true /\ rec = true)).
Proof.
  intros st signer now wallet pid to amount wf sig_ok rec st' out Hinv H Hout st1 p.
  pose proof (ms_prune_inv st now Hinv) as [HW1 HP1]. fold st1 in HW1, HP1.
  cbn [ms_step] in H. fold st1 in H.
  destruct wf; cbn [negb] in H.
  2:{ inversion H; subst. destruct Hout as [[n Hn]|(f & t & a & Hn)]; discriminate. }
  unfold p, ms_target.
  destruct (ms_prop_get (wallet, pid) (ms_props st1)) as [p0|] eqn:EG.
  - (* stored proposal *)
    destruct (mp_expire p0 <=? now) eqn:EX.
    { inversion H; subst. destruct Hout as [[n Hn]|(f & t & a & Hn)]; discriminate. }
    apply Z.leb_gt in EX.
    destruct ((mp_to p0 =? to) && (mp_amount p0 =? amount)) eqn:EC; cbn [negb] in H.
    2:{ inversion H; subst. destruct Hout as [[n Hn]|(f & t & a & Hn)]; discriminate. }
    apply andb_prop in EC. destruct EC as [EC1 EC2]. apply Z.eqb_eq in EC1, EC2.
    destruct (mp_executed p0) eqn:EE.
    { inversion H; subst. destruct Hout as [[n Hn]|(f & t & a & Hn)]; discriminate. }
    destruct (ms_wallet_get wallet (ms_wallets st1)) as [w|] eqn:EW.
    2:{ inversion H; subst. destruct Hout as [[n Hn]|(f & t & a & Hn)]; discriminate. }
    destruct (ms_tid_of signer (mw_signers w)) as [tid|] eqn:ET.
    2:{ inversion H; subst. destruct Hout as [[n Hn]|(f & t & a & Hn)]; discriminate. }
    destruct sig_ok; cbn [negb] in H.
    2:{ inversion H; subst. destruct Hout as [[n Hn]|(f & t & a & Hn)]; discriminate. }
    destruct (ms_memz tid (mp_votes p0)) eqn:EM.
    { inversion H; subst. destruct Hout as [[n Hn]|(f & t & a & Hn)]; discriminate. }
    assert (Hnin : ~ In tid (mp_votes p0)) by (intros Hin; apply ms_memz_In in Hin; congruence).
    unfold st1 in EW. rewrite ms_prune_wallets in EW.
    destruct (HP1 _ _ EG) as (w' & Hw' & Hnd & Hsig & Hle & Hex). cbn [fst] in Hw'.
    unfold st1 in Hw'. rewrite ms_prune_wallets in Hw'. rewrite EW in Hw'. inversion Hw'; subst w'.
    assert (Hlt : Z.of_nat (length (mp_votes p0)) < mw_required w).
    { destruct (Z.eq_dec (Z.of_nat (length (mp_votes p0))) (mw_required w)) as [E|E]; [|lia].
      apply Hex in E. congruence. }
    repeat split; auto.
    destruct (0 <? mw_required w - Z.of_nat (length (mp_votes p0)) - 1) eqn:ER.
    + apply Z.ltb_lt in ER. inversion H; subst st' out. clear H.
      eexists w, tid, _. cbn [ms_props ms_wallets]. rewrite ms_get_set_same.
      repeat split; try reflexivity; auto.
      * intros r Hr. apply ms_get_set_other. exact Hr.
      * unfold st1. apply ms_prune_wallets.
      * left. eexists. split; [reflexivity|]. cbn [mp_votes mp_executed]. rewrite app_length. cbn [length].
        repeat split; lia.
    + apply Z.ltb_ge in ER. destruct rec; cbn [negb] in H.
      2:{ inversion H; subst. destruct Hout as [[n Hn]|(f & t & a & Hn)]; discriminate. }
      inversion H; subst st' out. clear H.
      eexists w, tid, _. cbn [ms_props ms_wallets]. rewrite ms_get_set_same.
      repeat split; try reflexivity; auto.
      * intros r Hr. apply ms_get_set_other. exact Hr.
      * unfold st1. apply ms_prune_wallets.
      * right. cbn [mp_votes mp_executed]. rewrite app_length. cbn [length]. rewrite EC1, EC2.
        repeat split; lia.
  - (* fresh proposal *)
    cbn [mp_to mp_amount mp_executed mp_votes mp_expire ms_wallets ms_props length] in *.
    rewrite !Z.eqb_refl in H. cbn [andb negb] in H.
    destruct (ms_wallet_get wallet (ms_wallets st1)) as [w|] eqn:EW.
    2:{ inversion H; subst. destruct Hout as [[n Hn]|(f & t & a & Hn)]; discriminate. }
    destruct (ms_tid_of signer (mw_signers w)) as [tid|] eqn:ET.
    2:{ inversion H; subst. destruct Hout as [[n Hn]|(f & t & a & Hn)]; discriminate. }
    destruct sig_ok; cbn [negb] in H.
    2:{ inversion H; subst. destruct Hout as [[n Hn]|(f & t & a & Hn)]; discriminate. }
    cbn [ms_memz] in H.
    pose proof (HW1 _ _ EW) as Hreq.
    unfold st1 in EW. rewrite ms_prune_wallets in EW.
    unfold ms_week. repeat split; auto; try lia.
    destruct (0 <? mw_required w - Z.of_nat 0 - 1) eqn:ER.
    + inversion H; subst st' out. clear H.
      eexists w, tid, _. cbn [ms_props ms_wallets]. rewrite ms_get_set_same.
      repeat split; try reflexivity; auto.
      * intros r Hr. rewrite ms_get_set_other by exact Hr. apply ms_get_set_other. exact Hr.
      * unfold st1. apply ms_prune_wallets.
      * left. eexists. split; [reflexivity|]. cbn [mp_votes mp_executed app length]. repeat split; lia.
    + apply Z.ltb_ge in ER. cbn in ER. lia.
Qed.

(* any other outcome of a vote leaves every stored proposal as it was after the pruning step
   (refused requests are rolled back altogether) *)
Lemma ms_vote_not_counted : forall st signer now wallet pid to amount wf sig_ok rec st' out,
  ms_step st (MsVote signer now wallet pid to amount wf sig_ok rec) = (st', out) ->
  (forall n, out <> MsNeed n) -> (forall f t a, out <> MsExecuted f t a) ->
  (out = MsFail /\ st' = st) \/
  ((out = MsAlreadyExecuted \/ exists n, out = MsAlreadyVoted n) /\ st' = ms_prune_head st now).
Proof.
  intros st signer now wallet pid to amount wf sig_ok rec st' out H Hn He.
  cbn [ms_step] in H. set (st1 := ms_prune_head st now) in *.
  destruct wf; cbn [negb] in H; [|inversion H; auto].
  destruct (ms_prop_get (wallet, pid) (ms_props st1)) as [p0|] eqn:EG.
  - destruct (mp_expire p0 <=? now); [inversion H; auto|].
    destruct (negb ((mp_to p0 =? to) && (mp_amount p0 =? amount))); [inversion H; auto|].
    destruct (mp_executed p0); [inversion H; subst; right; split; auto|].
    destruct (ms_wallet_get wallet (ms_wallets st1)) as [w|]; [|inversion H; auto].
    destruct (ms_tid_of signer (mw_signers w)) as [tid|]; [|inversion H; auto].
    destruct (negb sig_ok); [inversion H; auto|].
    destruct (ms_memz tid (mp_votes p0)); [inversion H; subst; right; split; [right; eexists; reflexivity|reflexivity]|].
    destruct (0 <? _); [inversion H; subst; exfalso; eapply Hn; reflexivity|].
    destruct (negb rec); [inversion H; auto|]. inversion H; subst. exfalso. eapply He. reflexivity.
  - cbn [mp_to mp_amount mp_executed mp_votes ms_wallets] in H. rewrite !Z.eqb_refl in H. cbn [andb negb] in H.
    destruct (ms_wallet_get wallet (ms_wallets st1)) as [w|]; [|inversion H; auto].
    destruct (ms_tid_of signer (mw_signers w)) as [tid|]; [|inversion H; auto].
    destruct (negb sig_ok); [inversion H; auto|]. cbn [ms_memz] in H.
    destruct (0 <? _); [inversion H; subst; exfalso; eapply Hn; reflexivity|].
    destruct (negb rec); [inversion H; auto|]. inversion H; subst. exfalso. eapply He. reflexivity.
Qed.

(* executes once: an executed proposal that is still stored takes no further vote and releases
   nothing *)
Lemma ms_executed_no_more : forall st signer now wallet pid to amount wf sig_ok rec p,
  ms_prop_get (wallet, pid) (ms_props (ms_prune_head st now)) = Some p -> mp_executed p = true ->
  let out := snd (ms_step st (MsVote signer now wallet pid to amount wf sig_ok rec)) in
  out = MsAlreadyExecuted \/ out = MsFail.
Proof.
  intros st signer now wallet pid to amount wf sig_ok rec p EG EE. cbn [ms_step].
  destruct wf; cbn [negb]; [|right; reflexivity]. rewrite EG.
  destruct (mp_expire p <=? now); [right; reflexivity|].
  destruct (negb ((mp_to p =? to) && (mp_amount p =? amount))); [right; reflexivity|].
  rewrite EE. left. reflexivity.
Qed.

(* repeated votes do not count *)
Lemma ms_repeat_vote : forall st signer now wallet pid to amount wf sig_ok rec p w tid,
  ms_prop_get (wallet, pid) (ms_props (ms_prune_head st now)) = Some p ->
  ms_wallet_get wallet (ms_wallets st) = Some w -> ms_tid_of signer (mw_signers w) = Some tid ->
  In tid (mp_votes p) ->
  let r := ms_step st (MsVote signer now wallet pid to amount wf sig_ok rec) in
  (snd r = MsFail /\ fst r = st) \/
  ((snd r = MsAlreadyExecuted \/ snd r = MsAlreadyVoted (mw_required w - Z.of_nat (length (mp_votes p)))) /\
   fst r = ms_prune_head st now).
Proof.
  intros st signer now wallet pid to amount wf sig_ok rec p w tid EG EW ET Hin. cbn [ms_step].
  destruct wf; cbn [negb]; [|left; split; reflexivity]. rewrite EG.
  destruct (mp_expire p <=? now); [left; split; reflexivity|].
  destruct (negb ((mp_to p =? to) && (mp_amount p =? amount))); [left; split; reflexivity|].
  destruct (mp_executed p); [right; split; [left|]; reflexivity|].
  rewrite ms_prune_wallets, EW, ET.
  destruct (negb sig_ok); [left; split; reflexivity|].
  apply ms_memz_In in Hin. rewrite Hin. right. split; [right|]; reflexivity.
Qed.

(* a vote on a stored proposal whose week is over is refused and changes nothing *)
Lemma ms_expired_refused : forall st signer now wallet pid to amount wf sig_ok rec p,
  ms_prop_get (wallet, pid) (ms_props (ms_prune_head st now)) = Some p -> mp_expire p <= now ->
  ms_step st (MsVote signer now wallet pid to amount wf sig_ok rec) = (st, MsFail).
Proof.
  intros st signer now wallet pid to amount wf sig_ok rec p EG EX. cbn [ms_step].
  destruct wf; cbn [negb]; [|reflexivity]. rewrite EG.
  destruct (mp_expire p <=? now) eqn:E; [reflexivity|apply Z.leb_gt in E; lia].
Qed.

(* ---------- the invariant is kept by every request ---------- *)
Lemma ms_nodupz_NoDup : forall l, ms_nodupz l = true -> NoDup l.
Proof.
  induction l as [|x tl IH]; intros H; [constructor|]. cbn [ms_nodupz] in H.
  apply andb_prop in H. destruct H as [H1 H2]. constructor; [|apply IH; exact H2].
  intros Hin. apply ms_memz_In in Hin. rewrite Hin in H1. discriminate.
Qed.

Lemma ms_step_inv : forall st o, ms_inv st -> ms_inv (fst (ms_step st o)).
Proof.
  intros st o Hinv. destruct o as [client wallet signers required keys_ok|signer now wallet pid to amount wf sig_ok rec].
  - cbn [ms_step]. destruct (_ || _ || _ || _ || _ || _ || _) eqn:EC; [exact Hinv|].
    destruct (ms_wallet_get wallet (ms_wallets st)) eqn:EW; [exact Hinv|].
    cbn [fst]. destruct Hinv as [HW HP]. repeat (apply orb_false_iff in EC; destruct EC as [EC ?]).
    split.
    + intros k w. cbn [ms_wallets ms_wallet_get]. destruct (wallet =? k) eqn:E.
      * intros Hk. inversion Hk; subst. cbn [mw_required]. match goal with H : (required <? 2) = false |- _ => apply Z.ltb_ge in H; exact H end.
      * apply HW.
    + intros r p Hp. cbn [ms_props] in Hp. destruct (HP r p Hp) as (w & Hw & Hrest).
      exists w. split; [|exact Hrest]. cbn [ms_wallets ms_wallet_get].
      destruct (wallet =? fst r) eqn:E; [|exact Hw]. apply Z.eqb_eq in E. rewrite <- E in Hw. congruence.
  - destruct (ms_step st (MsVote signer now wallet pid to amount wf sig_ok rec)) as [st' out] eqn:ES. cbn [fst].
    assert (Hcases : ((exists n, out = MsNeed n) \/ (exists f t a, out = MsExecuted f t a)) \/
                     ((forall n, out <> MsNeed n) /\ (forall f t a, out <> MsExecuted f t a))).
    { destruct out; try (right; split; intros; discriminate); left; [left|right]; eauto. }
    destruct Hcases as [Hc|[Hn He]].
    + pose proof (ms_vote_counted _ _ _ _ _ _ _ _ _ _ _ _ Hinv ES Hc) as HC. cbv zeta in HC.
      destruct HC as (_ & _ & _ & _ & _ & Hne & w & tid & p' & Hw & Htid & Hnin & Hget & Hvotes & _ & _ & _ & Hother & Hwal & Hfin).
      pose proof (ms_prune_inv st now Hinv) as [HW1 HP1]. destruct Hinv as [HW HP].
      split; [intros k w0; rewrite Hwal; apply HW|].
      intros r p Hp. destruct (ms_ref_eqb (wallet, pid) r) eqn:ER.
      * apply ms_ref_eqb_eq in ER. subst r. rewrite Hget in Hp. inversion Hp; subst p'. clear Hp.
        exists w. cbn [fst]. rewrite Hwal. split; [exact Hw|].
        assert (Hold : NoDup (mp_votes (ms_target (ms_prune_head st now) now wallet pid to amount)) /\
                       (forall t, In t (mp_votes (ms_target (ms_prune_head st now) now wallet pid to amount)) -> exists s, In (s, t) (mw_signers w))).
        { unfold ms_target. destruct (ms_prop_get (wallet, pid) (ms_props (ms_prune_head st now))) as [p0|] eqn:EG.
          - destruct (HP1 _ _ EG) as (w' & Hw' & Hnd & Hsig & _). cbn [fst] in Hw'. rewrite ms_prune_wallets in Hw'.
            rewrite Hw in Hw'. inversion Hw'; subst w'. split; assumption.
          - cbn [mp_votes]. split; [constructor|intros t []]. }
        destruct Hold as [Hnd Hsig]. rewrite Hvotes.
        split; [|split; [|split]].
        -- apply NoDup_app_snoc; assumption.
        -- intros t Hin. apply in_app_or in Hin. destruct Hin as [Hin|[<-|[]]]; [apply Hsig; exact Hin|].
           exists signer. apply ms_tid_of_In. exact Htid.
        -- rewrite <- Hvotes. destruct Hfin as [(n & _ & Hn & Hpos & _)|(_ & Hlen & _)]; lia.
        -- rewrite <- Hvotes. destruct Hfin as [(n & _ & Hn & Hpos & Hex)|(_ & Hlen & Hex & _)]; rewrite Hex.
           ++ split; [discriminate|lia].
           ++ split; auto.
      * assert (Hr : r <> (wallet, pid)) by (intros ->; rewrite ms_ref_eqb_refl in ER; discriminate).
        rewrite (Hother r Hr) in Hp. destruct (HP1 r p Hp) as (w0 & Hw0 & Hrest).
        exists w0. rewrite Hwal. rewrite ms_prune_wallets in Hw0. split; assumption.
    + destruct (ms_vote_not_counted _ _ _ _ _ _ _ _ _ _ _ _ ES Hn He) as [[_ ->]|[_ ->]]; [exact Hinv|].
      apply ms_prune_inv. exact Hinv.
Qed.

Lemma ms_run_cons : forall st o tl,
  ms_run st (o :: tl) =
  (fst (ms_run (fst (ms_step st o)) tl), snd (ms_step st o) :: snd (ms_run (fst (ms_step st o)) tl)).
Proof.
  intros. cbn [ms_run]. destruct (ms_step st o) as [st1 out]. cbn [fst snd]. destruct (ms_run st1 tl); reflexivity.
Qed.

Lemma ms_run_inv : forall ops st, ms_inv st -> ms_inv (fst (ms_run st ops)).
Proof.
  induction ops as [|o tl IH]; intros st H; [exact H|]. rewrite ms_run_cons. cbn [fst]. apply IH, ms_step_inv, H.
Qed.

(* ---------- every vote held by a stored proposal was cast by a valid vote request ---------- *)

(* request e cast the vote with threshold id tid for proposal (wallet, pid) with the content of p *)
Definition ms_cast (w : ms_wallet) (wallet pid : Z) (p : ms_prop) (tid : Z) (e : ms_op * ms_out) : Prop :=
  match e with
  | (MsVote signer now wallet' pid' to amount wf sig _, out) =>
      wallet' = wallet /\ pid' = pid /\ wf = true /\ sig = true /\ to = mp_to p /\ amount = mp_amount p /\
      now < mp_expire p /\ ms_tid_of signer (mw_signers w) = Some tid /\
      ((exists n, out = MsNeed n) \/ (exists f t a, out = MsExecuted f t a))
  | _ => False
  end.

Definition ms_justified (st : ms_state) (tr : list (ms_op * ms_out)) : Prop :=
  forall r p w tid, ms_prop_get r (ms_props st) = Some p -> ms_wallet_get (fst r) (ms_wallets st) = Some w ->
    In tid (mp_votes p) -> exists e, In e tr /\ ms_cast w (fst r) (snd r) p tid e.

Lemma ms_cast_same_content : forall w wallet pid p p' tid e,
  mp_expire p' = mp_expire p -> mp_to p' = mp_to p -> mp_amount p' = mp_amount p ->
  ms_cast w wallet pid p tid e -> ms_cast w wallet pid p' tid e.
Proof.
  intros w wallet pid p p' tid [o out] H1 H2 H3 H. destruct o; [exact H|]. cbn [ms_cast] in *. rewrite H1, H2, H3. exact H.
Qed.

Lemma ms_justified_more : forall st tr e, ms_justified st tr -> ms_justified st (tr ++ [e]).
Proof.
  intros st tr e H r p w tid Hp Hw Hin. destruct (H r p w tid Hp Hw Hin) as (e0 & He0 & Hc).
  exists e0. split; [apply in_or_app; left; exact He0|exact Hc].
Qed.

Lemma ms_justified_prune : forall st tr now, ms_justified st tr -> ms_justified (ms_prune_head st now) tr.
Proof.
  intros st tr now H r p w tid Hp Hw Hin. rewrite ms_prune_wallets in Hw. apply ms_prune_get in Hp.
  exact (H r p w tid Hp Hw Hin).
Qed.

Lemma ms_step_justified : forall st tr o, ms_inv st -> ms_justified st tr ->
  ms_justified (fst (ms_step st o)) (tr ++ [(o, snd (ms_step st o))]).
Proof.
  intros st tr o Hinv HJ.
  destruct o as [client wallet signers required keys_ok|signer now wallet pid to amount wf sig_ok rec].
  - cbn [ms_step]. destruct (_ || _ || _ || _ || _ || _ || _); [apply ms_justified_more; exact HJ|].
    destruct (ms_wallet_get wallet (ms_wallets st)) eqn:EW; [apply ms_justified_more; exact HJ|].
    cbn [fst snd]. apply ms_justified_more. intros r p w tid Hp Hw Hin. cbn [ms_props] in Hp. cbn [ms_wallets ms_wallet_get] in Hw.
    destruct Hinv as [_ HP]. destruct (HP r p Hp) as (w0 & Hw0 & _).
    destruct (wallet =? fst r) eqn:E; [apply Z.eqb_eq in E; rewrite <- E in Hw0; congruence|].
    exact (HJ r p w tid Hp Hw Hin).
  - destruct (ms_step st (MsVote signer now wallet pid to amount wf sig_ok rec)) as [st' out] eqn:ES. cbn [fst snd].
    assert (Hcases : ((exists n, out = MsNeed n) \/ (exists f t a, out = MsExecuted f t a)) \/
                     ((forall n, out <> MsNeed n) /\ (forall f t a, out <> MsExecuted f t a))).
    { destruct out; try (right; split; intros; discriminate); left; [left|right]; eauto. }
    destruct Hcases as [Hc|[Hn He]].
    + pose proof (ms_vote_counted _ _ _ _ _ _ _ _ _ _ _ _ Hinv ES Hc) as HC. cbv zeta in HC.
      destruct HC as (Hwf & Hsig & Hexp & Hto & Ham & _ & w & tid & p' & Hw & Htid & Hnin & Hget & Hvotes & Hex' & Hto' & Ham' & Hother & Hwal & _).
      intros r p w1 tid1 Hp Hw1 Hin. rewrite Hwal in Hw1.
      destruct (ms_ref_eqb (wallet, pid) r) eqn:ER.
      * apply ms_ref_eqb_eq in ER. subst r. cbn [fst snd] in *. rewrite Hget in Hp. inversion Hp; subst p'. clear Hp.
        rewrite Hw in Hw1. inversion Hw1; subst w1. rewrite Hvotes in Hin. apply in_app_or in Hin.
        destruct Hin as [Hin|[<-|[]]].
        -- (* an older vote: the stored proposal had it *)
           unfold ms_target in *. destruct (ms_prop_get (wallet, pid) (ms_props (ms_prune_head st now))) as [p0|] eqn:EG; [|destruct Hin].
           destruct (ms_justified_prune st tr now HJ (wallet, pid) p0 w tid1 EG) as (e & He & Hcast); [cbn [fst]; rewrite ms_prune_wallets; exact Hw|exact Hin|].
           exists e. split; [apply in_or_app; left; exact He|].
           cbn [fst snd] in Hcast. apply (ms_cast_same_content w wallet pid p0 p tid1 e); auto; congruence.
        -- (* the vote cast by this request *)
           exists (MsVote signer now wallet pid to amount wf sig_ok rec, out). split; [apply in_or_app; right; left; reflexivity|].
           cbn [ms_cast]. rewrite Hex', Hto', Ham'. repeat split; auto.
      * assert (Hr : r <> (wallet, pid)) by (intros ->; rewrite ms_ref_eqb_refl in ER; discriminate).
        rewrite (Hother r Hr) in Hp.
        destruct (ms_justified_prune st tr now HJ r p w1 tid1 Hp) as (e & He & Hcast); [rewrite ms_prune_wallets; exact Hw1|exact Hin|].
        exists e. split; [apply in_or_app; left; exact He|exact Hcast].
    + apply ms_justified_more.
      destruct (ms_vote_not_counted _ _ _ _ _ _ _ _ _ _ _ _ ES Hn He) as [[_ ->]|[_ ->]]; [exact HJ|].
      apply ms_justified_prune. exact HJ.
Qed.

Lemma ms_run_justified : forall ops st tr, ms_inv st -> ms_justified st tr ->
  ms_justified (fst (ms_run st ops)) (tr ++ combine ops (snd (ms_run st ops))).
Proof.
  induction ops as [|o tl IH]; intros st tr Hinv HJ; [cbn; rewrite app_nil_r; exact HJ|].
  rewrite ms_run_cons. cbn [fst snd combine].
  replace (tr ++ (o, snd (ms_step st o)) :: combine tl (snd (ms_run (fst (ms_step st o)) tl)))
    with ((tr ++ [(o, snd (ms_step st o))]) ++ combine tl (snd (ms_run (fst (ms_step st o)) tl)))
    by (rewrite <- app_assoc; reflexivity).
  apply IH; [apply ms_step_inv; exact Hinv|apply ms_step_justified; assumption].
Qed.

(* An execution in any history: the proposal then holds exactly `required` distinct threshold ids
   of registered signers of the wallet, and each of them was cast earlier in the history (or by
   this request) by a well-formed, validly signed, compatible vote sent by that signer before the
   proposal expired. *)
Lemma ms_execution_justified : forall ops signer now wallet pid to amount wf sig_ok rec,
  let st := fst (ms_run ms_init ops) in
  let tr := combine ops (snd (ms_run ms_init ops)) in
  let o := MsVote signer now wallet pid to amount wf sig_ok rec in
  forall st' f t a, ms_step st o = (st', MsExecuted f t a) ->
  exists w p', ms_wallet_get wallet (ms_wallets st') = Some w /\ ms_prop_get (wallet, pid) (ms_props st') = Some p' /\
    f = wallet /\ t = mp_to p' /\ a = mp_amount p' /\ mp_executed p' = true /\
    NoDup (mp_votes p') /\ Z.of_nat (length (mp_votes p')) = mw_required w /\ 2 <= mw_required w /\
    forall tid, In tid (mp_votes p') ->
      exists e, In e (tr ++ [(o, MsExecuted f t a)]) /\ ms_cast w wallet pid p' tid e.
Proof.
  intros ops signer now wallet pid to amount wf sig_ok rec st tr o st' f t a ES.
  assert (Hinv : ms_inv st) by (apply ms_run_inv, ms_inv_init).
  assert (HJ : ms_justified st tr).
  { pose proof (ms_run_justified ops ms_init [] ms_inv_init) as H. cbn [app] in H. apply H. intros r p w tid Hp. discriminate. }
  pose proof (ms_step_inv st o Hinv) as Hinv'. pose proof (ms_step_justified st tr o Hinv HJ) as HJ'.
  rewrite ES in Hinv', HJ'. cbn [fst snd] in Hinv', HJ'.
  pose proof (ms_vote_counted _ _ _ _ _ _ _ _ _ _ _ _ Hinv ES (or_intror (ex_intro _ f (ex_intro _ t (ex_intro _ a eq_refl))))) as HC.
  cbv zeta in HC.
  destruct HC as (_ & _ & _ & _ & _ & _ & w & tid & p' & Hw & _ & _ & Hget & _ & _ & Hto' & Ham' & _ & Hwal & Hfin).
  destruct Hfin as [(n & Hn & _)|(Hout & Hlen & Hex & _)]; [discriminate|]. inversion Hout; subst f t a.
  destruct Hinv' as [HW' HP']. destruct (HP' _ _ Hget) as (w' & Hw' & Hnd & _ & _ & _). cbn [fst] in Hw'.
  rewrite Hwal in Hw'. rewrite Hw in Hw'. inversion Hw'; subst w'.
  exists w, p'. rewrite Hwal. repeat split; auto.
  - apply (HW' wallet w). rewrite Hwal. exact Hw.
  - intros tid0 Hin. apply (HJ' (wallet, pid) p' w tid0 Hget); [cbn [fst]; rewrite Hwal; exact Hw|exact Hin].
Qed.
