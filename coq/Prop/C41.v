(* C41: LFB tickets are authentic and never move backwards.
   Only statements; each is closed by [exact] of a lemma in Proof/LFB.v. *)
From ZC Require Import Model.LFB Proof.LFB.
Open Scope Z_scope.

(* The round of the reported ticket never decreases, for every sequence of events (remote
   batches, local kicks, own broadcasts, reads) in any order, whatever the registry. *)
Theorem C41_latest_round_monotone :
  forall fixed nodes self_sharder evs st,
    lf_nondecreasing (ll_round st) (map ll_round (lf_run fixed nodes self_sharder st evs)).
Proof. exact lf_latest_round_monotone. Qed.
Print Assumptions C41_latest_round_monotone.

(* How the channel is drained does not matter: a remote batch split at any point into two
   batches leads to the same reported ticket (so every schedule of deliveries is covered by
   the sequences of single-ticket events). *)
Theorem C41_batching_irrelevant :
  forall fixed nodes self_sharder st b1 b2,
    lf_step fixed nodes self_sharder st (LfRemote (b1 ++ b2)) =
    lf_step fixed nodes self_sharder (lf_step fixed nodes self_sharder st (LfRemote b1)) (LfRemote b2).
Proof. exact lf_remote_batch_split. Qed.
Print Assumptions C41_batching_irrelevant.

(* Every remote ticket ever reported was posted to the handler and passed its check. *)
Theorem C41_adopts_only_verified :
  forall fixed nodes self_sharder round hash evs,
    Forall (lf_backed fixed nodes evs) (lf_run fixed nodes self_sharder (lf_init round hash) evs).
Proof. exact lf_adopts_only_verified. Qed.
Print Assumptions C41_adopts_only_verified.

(* "It only adopts received tickets signed by a sharder of the current magic block." *)
Definition C41_full_statement : Prop := lf_signer_is_current_sharder false.

(* False of the code as written: verifyLFBTicket looks the signer up among all registered
   nodes; a ticket validly signed by a registered miner is adopted. *)
Theorem C41_signer_is_current_sharder_refuted : ~ C41_full_statement.
Proof. exact lf_signer_is_current_sharder_refuted. Qed.
Print Assumptions C41_signer_is_current_sharder_refuted.

(* What does hold as written: the signer of a reported remote ticket is a registered node and the
   ticket carries a valid signature of that node for the reported round; and outside the trigger
   (every registered node is a sharder of the current magic block) the full statement holds. *)
Theorem C41_signer_is_registered_and_signed_partial :
  forall fixed nodes self_sharder round hash evs st s,
    In st (lf_run fixed nodes self_sharder (lf_init round hash) evs) -> ll_origin st = ORemote s ->
    exists n t, lf_find nodes s = Some n /\ lf_posted evs t /\ lf_signer t = s /\ lf_round t = ll_round st /\
      lf_sig_ok t = true /\ (fixed = true -> lf_is_mb_sharder n = true).
Proof. exact lf_signer_general. Qed.
Print Assumptions C41_signer_is_registered_and_signed_partial.

Theorem C41_signer_is_current_sharder_partial :
  forall nodes self_sharder round hash evs st s,
    (forall n, In n nodes -> lf_is_mb_sharder n = true) ->
    In st (lf_run false nodes self_sharder (lf_init round hash) evs) -> ll_origin st = ORemote s ->
    exists n, lf_find nodes s = Some n /\ lf_is_mb_sharder n = true.
Proof. exact lf_signer_is_current_sharder_partial. Qed.
Print Assumptions C41_signer_is_current_sharder_partial.

(* With the signer looked up among the sharders of the current magic block the statement holds. *)
Theorem C41_signer_is_current_sharder_after_repair : lf_signer_is_current_sharder true.
Proof. exact lf_signer_is_current_sharder_repaired. Qed.
Print Assumptions C41_signer_is_current_sharder_after_repair.

(* Non-vacuity *)
Example C41_example :
  let nodes := [ {| lf_nid := 1; lf_nkind := LfSharder; lf_in_mb := true |};
                 {| lf_nid := 2; lf_nkind := LfMiner; lf_in_mb := true |};
                 {| lf_nid := 3; lf_nkind := LfSharder; lf_in_mb := false |} ] in
  let T r s ok := {| lf_round := r; lf_signer := s; lf_sig_ok := ok; lf_hash := r |} in
  map (fun st => (ll_round st, ll_origin st))
      (lf_run false nodes true (lf_init 5 5)
         [LfRemote [T 7 1 true; T 9 1 false; T 8 9 true]; LfBroadcast [(6, 6); (8, 8)]; LfKick 8; LfKick 11;
          LfRemote [T 12 2 true]; LfRemote [T 10 1 true]; LfGet])
  = [(7, ORemote 1); (8, OOwn); (8, OOwn); (11, OKick); (12, ORemote 2); (12, ORemote 2); (12, ORemote 2)] /\
  map (fun st => (ll_round st, ll_origin st))
      (lf_run true nodes true (lf_init 5 5) [LfRemote [T 12 2 true; T 11 3 true; T 6 1 true]])
  = [(6, ORemote 1)].
Proof. vm_compute. split; reflexivity. Qed.
