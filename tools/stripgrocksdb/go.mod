module stripgrocksdb

go 1.21
