// Engine for C06 (deterministic block execution). Driver: generates scenarios (blocks of real contract
// transactions: faucet pours/refills, stake locks and unlocks on registered miners, governance updates of
// all contracts with valid, invalid, aliased and cost keys), executes each scenario N times in fresh
// processes of this binary (fresh map seeds; GOMAXPROCS 1 and 16; warm and cold state cache) through the real
// chain.Chain.UpdateState, and compares state roots, change counts, statuses, outputs and event lists.
// Worker (-worker scenario.json out.json): see worker.go.
package main

import (
	"crypto/sha256"
	"encoding/binary"
	"encoding/json"
	"fmt"
	"os"
	"os/exec"
	"path/filepath"
	"sort"
	"strings"
	"sync"
	"time"

	"verifharness/vh"
)

// ---------- scenario generation ----------

type gset struct {
	sc, fn string
	good   [][2]string // key, acceptable value
	bad    [][2]string // key, value that is rejected (unknown key or unparsable value)
}

var gsets = []gset{
	{"miner", "update_globals", [][2]string{{"server_chain.block.max_block_size", "20"}, {"server_chain.block.min_block_size", "2"}, {"server_chain.block.reuse_txns", "true"},
		{"server_chain.round_range", "5000"}, {"server_chain.state.sync.timeout", "20s"}, {"server_chain.lfb_ticket.ahead", "3"}},
		[][2]string{{"server_chain.block.max_block_size", "x"}, {"nope", "5"}, {"server_chain.owner", "aa"}, {"server_chain.block.proposal.max_wait_time", "soon"}, {"server_chain.dkg", "true"}}},
	{"miner", "update_settings", [][2]string{{"max_n", "9"}, {"max_delegates", "150"}, {"reward_round_frequency", "100"}, {"epoch", "1000"}, {"max_charge", "0.4"}, {"cooldown_period", "50"}, {"cost.wait", "120"}},
		[][2]string{{"max_n", "many"}, {"nope", "1"}, {"epoch", "1.5"}, {"health_check_period", "tomorrow"}, {"owner_id", "not hex"}}},
	{"storage", "update_settings", [][2]string{{"max_delegates", "150"}, {"max_charge", "0.4"}, {"min_alloc_size", "2048"}, {"validators_per_challenge", "3"}, {"time_unit", "2h"}, {"cost.read_redeem", "90"}},
		[][2]string{{"max_delegates", "lots"}, {"nope", "1"}, {"time_unit", "2 hours"}, {"challenge_enabled", "maybe"}, {"max_charge", "half"}}},
	{"faucet", "update-settings", [][2]string{{"pour_amount", "2"}, {"max_pour_amount", "50"}, {"periodic_limit", "500"}, {"global_limit", "50000"}, {"individual_reset", "2h"}, {"global_rest", "40h"}},
		[][2]string{{"pour_amount", "two"}, {"nope", "1"}, {"individual_reset", "later"}, {"owner_id", "zz"}, {"max_pour_amount", "x"}}},
	{"vesting", "vestingsc-update-settings", [][2]string{{"min_duration", "3m"}, {"max_duration", "3000h"}, {"max_destinations", "4"}, {"max_description_length", "30"}, {"min_lock", "0.5"}},
		[][2]string{{"min_duration", "soon"}, {"nope", "1"}, {"max_destinations", "four"}, {"owner_id", "zz"}, {"max_description_length", "x"}}},
	{"zcn", "update-global-config", [][2]string{{"min_stake", "1"}, {"min_mint", "2"}, {"min_burn", "2"}, {"max_delegates", "12"}, {"min_authorizers", "2"}, {"health_check_period", "2h"}},
		[][2]string{{"min_mint", "two"}, {"nope", "1"}, {"health_check_period", "later"}, {"max_delegates", "x"}, {"min_authorizers", "1.5"}}},
}

func fieldsJSON(es [][2]string) string {
	var b strings.Builder
	b.WriteString(`{"fields":{`)
	for i, e := range es {
		if i > 0 {
			b.WriteString(",")
		}
		k, _ := json.Marshal(e[0])
		v, _ := json.Marshal(e[1])
		b.Write(k)
		b.WriteString(":")
		b.Write(v)
	}
	b.WriteString("}}")
	return b.String()
}

// scenario + what the generator knows about it
type scen struct {
	scenario
	Triggers []string      `json:"triggers,omitempty"` // listed findings this scenario exercises
	ErrCodes [][]*int      `json:"-"`                  // per governance txn: error code per entry (nil = acceptable)
	Gov      []govTxn      `json:"gov,omitempty"`
	Late     time.Duration `json:"late,omitempty"`   // second half of the executions starts this much later (clock scenario)
	Reward   *rewardCase   `json:"reward,omitempty"` // stake-pool rewards stream (rewards.go) instead of blocks
}

type govTxn struct {
	Block, Txn int
	Entries    [][2]string
	Bad        []bool
}

func hasTrig(s scen, t string) bool {
	for _, x := range s.Triggers {
		if x == t {
			return true
		}
	}
	return false
}

func genGov(r *vh.Rand, g gset, nBad int) (stxn, govTxn) {
	ng := r.Range(1, 4)
	var es [][2]string
	var bad []bool
	used := map[string]bool{}
	for _, i := range r.Perm(len(g.good))[:ng] {
		es = append(es, g.good[i])
		bad = append(bad, false)
		used[g.good[i][0]] = true
	}
	n := 0
	for _, i := range r.Perm(len(g.bad)) {
		if n == nBad {
			break
		}
		if used[g.bad[i][0]] {
			continue
		}
		used[g.bad[i][0]] = true
		// spread the rejected entries over the request
		pos := (n * (len(es) + 1)) / (nBad)
		if pos > len(es) {
			pos = len(es)
		}
		es = append(es[:pos], append([][2]string{g.bad[i]}, es[pos:]...)...)
		bad = append(bad[:pos], append([]bool{true}, bad[pos:]...)...)
		n++
	}
	return stxn{From: "owner", SC: g.sc, Fn: g.fn, Input: fieldsJSON(es)}, govTxn{Entries: es, Bad: bad}
}

func genScenario(r *vh.Rand, kind int) scen {
	var s scen
	s.Miners, s.Sharders = 3, 1
	accts := []string{"a1", "a2", "a3", "a4", "a5"}
	nb := r.Range(2, 4)
	for b := 0; b < nb; b++ {
		var blk sblock
		nt := r.Range(2, 6)
		for i := 0; i < nt; i++ {
			switch x := r.Intn(10); {
			case x < 3:
				blk.Txns = append(blk.Txns, stxn{From: accts[r.Intn(len(accts))], SC: "faucet", Fn: "pour"})
			case x < 4:
				blk.Txns = append(blk.Txns, stxn{From: accts[r.Intn(len(accts))], SC: "faucet", Fn: "refill", Value: uint64(r.Range(1, 50)) * 1e8})
			case x < 6:
				blk.Txns = append(blk.Txns, stxn{From: accts[r.Intn(len(accts))], SC: "miner", Fn: "addToDelegatePool", Value: uint64(r.Range(2, 9)) * 1e10,
					Input: fmt.Sprintf(`{"provider_type":1,"provider_id":%q}`, mkNode(1+r.Intn(3), r.Intn(3)).id)})
			case x < 7:
				blk.Txns = append(blk.Txns, stxn{From: accts[r.Intn(len(accts))], SC: "miner", Fn: "deleteFromDelegatePool",
					Input: fmt.Sprintf(`{"provider_type":1,"provider_id":%q}`, mkNode(1, r.Intn(3)).id)})
			default:
				g := gsets[r.Intn(len(gsets))]
				nBad := 0
				if r.Chance(1, 3) {
					nBad = 1 // a single rejected entry: the error text does not depend on the order
				}
				if kind == 1 && r.Chance(1, 2) {
					nBad = 3
				}
				t, gt := genGov(r, g, nBad)
				gt.Block, gt.Txn = b, len(blk.Txns)
				s.Gov = append(s.Gov, gt)
				if nBad >= 2 {
					s.Triggers = append(s.Triggers, "first-error")
				}
				blk.Txns = append(blk.Txns, t)
			}
		}
		s.Blocks = append(s.Blocks, blk)
	}
	switch kind {
	case 2: // two spellings of one storagesc key, then the commit
		s.Triggers = append(s.Triggers, "alias")
		s.Blocks = append(s.Blocks, sblock{Txns: []stxn{
			{From: "owner", SC: "storage", Fn: "update_settings", Input: fieldsJSON([][2]string{{" max_delegates", "7"}, {"max_charge", "0.3"}, {"min_alloc_size", "4096"},
				{"validators_per_challenge", "4"}, {"cost.read_redeem", "80"}, {"time_unit", "3h"}, {"max_delegates", "9"}})},
			{From: "a1", SC: "storage", Fn: "commit_settings_changes", Input: `{"round":9}`}}})
	case 3: // a cost key in the middle of a faucet / vesting request
		s.Triggers = append(s.Triggers, "cost-cut")
		s.Blocks = append(s.Blocks, sblock{Txns: []stxn{
			{From: "owner", SC: "faucet", Fn: "update-settings", Input: fieldsJSON([][2]string{{"pour_amount", "2"}, {"max_pour_amount", "50"}, {"periodic_limit", "500"},
				{"cost.pour", "5"}, {"global_limit", "50000"}, {"individual_reset", "2h"}, {"global_rest", "40h"}})},
			{From: "owner", SC: "vesting", Fn: "vestingsc-update-settings", Input: fieldsJSON([][2]string{{"min_duration", "3m"}, {"max_duration", "3000h"}, {"cost.add", "7"},
				{"max_destinations", "4"}, {"max_description_length", "30"}})}}})
	}
	if kind == 5 || (len(s.Triggers) == 0 && r.Chance(1, 4)) {
		// a governance call that writes a cost.* entry and then fails on a later entry (the loops visit the keys in
		// sorted order, "cost." sorts first), followed - in later blocks - by calls that save the same settings node:
		// whatever the failed call left in a cached object must not reach the trie (warm vs cold root)
		costs := []string{"add_miner", "add_sharder", "wait", "contributeMpk", "update_settings", "sharder_keep"}
		bads := [][2]string{{"max_n", "not-a-number"}, {"nope", "1"}, {"epoch", "1.5"}, {"max_charge", "lots"}}
		es := [][2]string{{"cost." + costs[r.Intn(len(costs))], fmt.Sprint(r.Range(200, 999))}}
		if r.Bool() {
			es = append(es, [2]string{"max_delegates", "120"})
		}
		es = append(es, bads[r.Intn(len(bads))])
		s.Blocks = append(s.Blocks, sblock{Txns: []stxn{{From: "owner", SC: "miner", Fn: "update_settings", Input: fieldsJSON(es)}}})
		s.Blocks = append(s.Blocks, sblock{Txns: []stxn{{From: "owner", SC: "miner", Fn: "update_settings", Input: fieldsJSON([][2]string{{"reward_round_frequency", fmt.Sprint(r.Range(50, 500))}})}}})
		if r.Bool() {
			s.Blocks = append(s.Blocks, sblock{Txns: []stxn{{From: "owner", SC: "miner", Fn: "update_settings", Input: fieldsJSON([][2]string{{"cost.wait", fmt.Sprint(r.Range(100, 200))}})}}})
		}
	}
	if kind == 4 || r.Chance(1, 3) {
		// zcnsc mints: a call that fails after writing (bad signatures: the nonce is recorded first), then - in a later
		// block - a call that reads the same key (a correctly signed mint with that nonce); plus regular mints and repeats
		s.Authorizers = 3
		n := int64(r.Range(1, 50))
		who := accts[r.Intn(len(accts))]
		bad := stxn{From: who, SC: "zcn", Fn: "mint", Mint: &mintSpec{Nonce: n, Amount: uint64(r.Range(2, 9)) * 1e10, Signers: []int{1, 2, 3}, BadSig: true}}
		good := bad
		good.Mint = &mintSpec{Nonce: n, Amount: bad.Mint.Amount, Signers: []int{1, 2, 3}}
		other := stxn{From: accts[r.Intn(len(accts))], SC: "zcn", Fn: "mint", Mint: &mintSpec{Nonce: n + 1, Amount: 3e10, Signers: []int{1, 2, 3}}}
		i := r.Intn(len(s.Blocks))
		s.Blocks[i].Txns = append(s.Blocks[i].Txns, bad)
		if r.Bool() {
			s.Blocks[i].Txns = append(s.Blocks[i].Txns, other)
		}
		s.Blocks = append(s.Blocks, sblock{Txns: []stxn{good}})
		if r.Bool() {
			s.Blocks = append(s.Blocks, sblock{Txns: []stxn{good, other}}) // repeats: "already minted"
		}
	}
	s.Name = fmt.Sprintf("kind%d", kind)
	return s
}

// the wall-clock scenario: a stake locked "now + 6 s" (transaction time) is unlocked in the next block;
// executions started before that instant refuse, executions started after it allow.
// fan-in scenarios: a new_allocation_request whose blobber list names two or more existing providers of another
// type (registered authorizers, miners, sharders share the provider:<id> key space): every such item fails in
// getBlobber with an error other than value-not-present, GetItemsByIDs returns the one that arrives first.
// shape: "same-provider-type" (authorizers only), "same-provider-type-nodes" (miners/sharders only),
// "mixed-provider-types" (both).
func fanScenario(r *vh.Rand, shape string) scen {
	s := scen{}
	s.Miners, s.Sharders, s.Authorizers = 3, 2, 4
	s.Triggers = []string{"fan-in", shape}
	auths := []string{"$auth1", "$auth2", "$auth3", "$auth4"}
	nodes := []string{"$m1", "$m2", "$m3", "$s1", "$s2"}
	pick := func(xs []string, k int) []string {
		var out []string
		for _, i := range r.Perm(len(xs))[:k] {
			out = append(out, xs[i])
		}
		return out
	}
	var ids []string
	switch shape {
	case "same-provider-type":
		ids = pick(auths, r.Range(2, 4))
	case "same-provider-type-nodes":
		ids = pick(nodes, r.Range(2, 5))
	default:
		ids = append(pick(auths, r.Range(1, 3)), pick(nodes, r.Range(1, 3))...)
	}
	if r.Chance(1, 3) {
		ids = append(ids, "$a9") // not a provider at all: value not present (ordered by index)
	}
	p := r.Perm(len(ids))
	var list, tickets []string
	for _, i := range p {
		list = append(list, fmt.Sprintf("%q", ids[i]))
		tickets = append(tickets, `""`)
	}
	req := func(list, tickets []string) string {
		return fmt.Sprintf(`{"data_shards":1,"parity_shards":1,"size":1073741824,"blobbers":[%s],"blobber_auth_tickets":[%s],"read_price_range":{"min":0,"max":100},"write_price_range":{"min":0,"max":100}}`,
			strings.Join(list, ","), strings.Join(tickets, ","))
	}
	// an unrelated successful transaction first, then the request (twice: the second on the state the first left),
	// then per failing item a probe naming it twice
	last := []stxn{{From: fmt.Sprintf("a%d", r.Range(1, 4)), SC: "storage", Fn: "new_allocation_request", Input: req(list, tickets), Value: 1000},
		{From: "a5", SC: "storage", Fn: "new_allocation_request", Input: req(list, tickets), Value: 1000}}
	for _, x := range ids {
		if x != "$a9" {
			q := fmt.Sprintf("%q", x)
			last = append(last, stxn{From: "a6", SC: "storage", Fn: "new_allocation_request", Input: req([]string{q, q}, []string{`""`, `""`}), Value: 1000, Probe: true})
		}
	}
	s.Blocks = []sblock{{Txns: []stxn{{From: "a2", SC: "faucet", Fn: "pour", Input: "null"}}}, {Txns: last}}
	return s
}

func clockScenario() scen {
	var s scen
	s.Name = "wall-clock-lock-period"
	s.Miners, s.Sharders = 3, 1
	s.BaseTime = time.Now().Unix() + 6
	s.Late = 9 * time.Second
	s.Triggers = []string{"clock"}
	m := mkNode(1, 0).id
	s.Blocks = []sblock{
		{Txns: []stxn{{From: "a1", SC: "miner", Fn: "addToDelegatePool", Value: 3e10, Input: fmt.Sprintf(`{"provider_type":1,"provider_id":%q}`, m)}}},
		{Txns: []stxn{{From: "a1", SC: "miner", Fn: "deleteFromDelegatePool", TimeOffset: 1, Input: fmt.Sprintf(`{"provider_type":1,"provider_id":%q}`, m)}}},
	}
	return s
}

// ---------- executing a scenario N times ----------

type runCfg struct {
	procs int
	cold  bool
	delay time.Duration
}

func execRuns(self, dir string, s scen, cfgs []runCfg) ([]result, []string) {
	res := make([]result, len(cfgs))
	errs := make([]string, len(cfgs))
	var wg sync.WaitGroup
	sem := make(chan struct{}, 8)
	for i, c := range cfgs {
		wg.Add(1)
		go func(i int, c runCfg) {
			defer wg.Done()
			time.Sleep(c.delay)
			sem <- struct{}{}
			defer func() { <-sem }()
			sc2 := s.scenario
			sc2.Cold = c.cold
			in := filepath.Join(dir, fmt.Sprintf("scn_%s_%d.json", s.Name, i))
			out := filepath.Join(dir, fmt.Sprintf("res_%s_%d.json", s.Name, i))
			b, _ := json.Marshal(sc2)
			must(os.WriteFile(in, b, 0o644))
			cmd := exec.Command(self, "-worker", in, out)
			cmd.Env = append(os.Environ(), fmt.Sprintf("GOMAXPROCS=%d", c.procs))
			cmd.Dir = dir
			if o, err := cmd.CombinedOutput(); err != nil {
				tail := string(o)
				first := ""
				for _, ln := range strings.Split(tail, "\n") {
					if strings.HasPrefix(ln, "panic: ") || strings.HasPrefix(ln, "fatal error: ") {
						first = ln + " ... "
						break
					}
				}
				if len(tail) > 400 {
					tail = tail[len(tail)-400:]
				}
				errs[i] = fmt.Sprintf("worker failed: %v: %s%s", err, first, tail)
				return
			}
			rb, err := os.ReadFile(out)
			if err != nil {
				errs[i] = err.Error()
				return
			}
			if err := json.Unmarshal(rb, &res[i]); err != nil {
				errs[i] = err.Error()
			}
			_ = os.Remove(in)
			_ = os.Remove(out)
		}(i, c)
	}
	wg.Wait()
	return res, errs
}

func digest(parts ...interface{}) int64 {
	b, _ := json.Marshal(parts)
	h := sha256.Sum256(b)
	return int64(binary.BigEndian.Uint64(h[:8]) >> 2)
}

type viol struct{ sig, desc string }

// compare: the property on the executions of one scenario.
func compare(s scen, rs []result, errs []string) ([]viol, int64) {
	var vs []viol
	add := func(sig, f string, a ...interface{}) {
		vs = append(vs, viol{"C06:" + sig, s.Name + ": " + fmt.Sprintf(f, a...)})
	}
	for i, e := range errs {
		if e != "" {
			add("worker-failed", "execution %d: %s", i, e)
			return vs, 0
		}
	}
	r0 := rs[0]
	for i := 1; i < len(rs); i++ {
		r := rs[i]
		for b := range r0.Roots {
			if b >= len(r.Roots) {
				break
			}
			for t := range r0.Txns[b] {
				x, y := r0.Txns[b][t], r.Txns[b][t]
				where := fmt.Sprintf("block %d txn %d (%s %s)", b, t, s.Blocks[b].Txns[t].SC, s.Blocks[b].Txns[t].Fn)
				switch {
				case x.Panic != y.Panic:
					add("panic-differs", "%s: %q vs %q", where, x.Panic, y.Panic)
				case x.Applied != y.Applied || x.Status != y.Status:
					if hasTrig(s, "clock") {
						add("wall-clock-lock-period", "%s: the same block gives status %d (%s) in one execution and status %d (%s) in an execution started %v later: "+
							"StakePoolUnlock compares the lock period with time.Now()", where, x.Status, short(x.Output), y.Status, short(y.Output), s.Late)
					} else {
						add("status-differs", "%s: status %d/%v vs %d/%v", where, x.Status, x.Applied, y.Status, y.Applied)
					}
				case x.Output != y.Output:
					if hasTrig(s, "first-error") && x.Status == 2 {
						add("settings-error-in-map-order", "%s: the transaction output (error text of the first invalid entry in map order) differs between executions: %q vs %q", where, short(x.Output), short(y.Output))
					} else if hasTrig(s, "alias") || hasTrig(s, "cost-cut") {
						add("settings-applied-in-map-order", "%s: output differs: %q vs %q", where, short(x.Output), short(y.Output))
					} else {
						add("output-differs", "%s: %q vs %q", where, short(x.Output), short(y.Output))
					}
				}
				if strings.Join(x.Events, "|") != strings.Join(y.Events, "|") {
					if strings.Join(sortedCopy(x.Events), "|") == strings.Join(sortedCopy(y.Events), "|") {
						onlyUsers := true
						for k := range x.Events {
							if x.Events[k] != y.Events[k] && !(strings.Contains(x.Events[k], "/user:") && strings.Contains(y.Events[k], "/user:")) {
								onlyUsers = false
							}
						}
						if onlyUsers {
							add("user-events-in-map-order", "%s: the user events of the transaction come out in a different order: %v vs %v", where, tail(x.Events, 3), tail(y.Events, 3))
						} else {
							add("event-order-differs", "%s: same events, different order: %v vs %v", where, x.Events, y.Events)
						}
					} else if !(x.Output != y.Output || x.Status != y.Status) {
						add("event-list-differs", "%s: %v vs %v", where, x.Events, y.Events)
					}
				}
			}
			if r0.Roots[b] != r.Roots[b] || r0.Changes[b] != r.Changes[b] {
				if hasTrig(s, "alias") || hasTrig(s, "cost-cut") {
					add("settings-applied-in-map-order", "state root after block %d differs between executions (%s.. vs %s..): two spellings of one key / the entries after a cost key are applied in map order",
						b, r0.Roots[b][:12], r.Roots[b][:12])
				} else if hasTrig(s, "clock") {
					add("wall-clock-lock-period", "state root after block %d differs between an execution and one started %v later", b, s.Late)
				} else {
					sig := "state-root-differs"
					if i%4 >= 2 { // execution 0 is warm, execution i is cold (mkCfgs)
						sig = "root-depends-on-cache-temperature"
					}
					add(sig, "state root / change count after block %d differs (warm: one StateCache across the blocks, cold: a fresh one per block; execution 0 is warm): %s.. (%d) vs %s.. (%d)", b, r0.Roots[b][:12], r0.Changes[b], r.Roots[b][:12], r.Changes[b])
				}
				break
			}
		}
	}
	return dedupe(vs), 0
}

func dedupe(vs []viol) []viol {
	seen := map[string]bool{}
	var out []viol
	for _, v := range vs {
		if !seen[v.sig] {
			seen[v.sig] = true
			out = append(out, v)
		}
	}
	return out
}

func short(s string) string {
	if len(s) > 110 {
		return s[:110] + "..."
	}
	return s
}

func tail(xs []string, n int) []string {
	if len(xs) > n {
		xs = xs[len(xs)-n:]
	}
	out := []string{}
	for _, x := range xs {
		if len(x) > 60 {
			x = x[:20] + ".." + x[len(x)-30:]
		}
		out = append(out, x)
	}
	return out
}

// runDigest: one number per execution covering roots, change counts, statuses, outputs, events as a multiset
func runDigest(r result) int64 {
	type t struct {
		A bool
		S int
		O string
		E []string
		P string
	}
	var all [][]t
	for _, b := range r.Txns {
		var row []t
		for _, x := range b {
			row = append(row, t{x.Applied, x.Status, x.OutHash, sortedCopy(x.Events), x.Panic})
		}
		all = append(all, row)
	}
	return digest(r.Roots, r.Changes, all)
}

// error code of an entry of a governance request as seen in the output text (index of the entry whose key or
// value the text names), or nil
func observedErr(out string, g govTxn) *int {
	best, bestLen := -1, 0
	for i, e := range g.Entries { // the key named in the text (longest match)
		if g.Bad[i] && strings.Contains(out, e[0]) && len(e[0]) > bestLen {
			best, bestLen = i, len(e[0])
		}
	}
	if best < 0 {
		for i, e := range g.Entries { // or the value, when it is distinctive
			if g.Bad[i] && len(e[1]) >= 3 && strings.Contains(out, e[1]) && len(e[1]) > bestLen {
				best, bestLen = i, len(e[1])
			}
		}
	}
	if best < 0 {
		return nil
	}
	k := best + 1
	return &k
}

func optZ(p *int) string {
	if p == nil {
		return "None"
	}
	return fmt.Sprintf("(Some %d)", *p)
}

func main() {
	if len(os.Args) >= 4 && os.Args[1] == "-worker" {
		workerMain(os.Args[2], os.Args[3])
		return
	}
	o := vh.ParseFlags()
	rep := vh.NewReport("determinism", "C06", o)
	rep.Rule = "scenarios of 2-6 blocks of real contract transactions (faucet pour/refill, stake lock/unlock on registered miners, zcnsc mints signed by registered authorizers incl. " +
		"a mint that fails after recording its nonce followed in a later block by a valid mint of the same nonce, governance updates of the six entry points " +
		"with 0, 1 or 3 rejected entries, two spellings of one key, a cost key inside a request) executed through chain.UpdateState with the real contracts; every scenario is " +
		"executed 6 times (thorough: 16) in fresh processes: GOMAXPROCS 1 and 16, warm and cold state cache; one scenario is executed before and after a wall-clock instant; " +
		"fan-in scenarios: a new_allocation_request naming 2-6 existing providers of another type (authorizers only / miners and sharders only / both), the request and one probe per failing item " +
		"executed 300 times (thorough: 3000) on one state in one process at GOMAXPROCS 16 with a cold cache, and once by a warm node; " +
		"stake-pool rewards stream: a provider with 2-12 delegates (equal or different stakes), a reward with a remainder, N rewarded delegates below/equal/above the delegate count, " +
		"applied 16 times (thorough: 64) to fresh copies of one committed state through the real StakePool.DistributeRewardsRandN, comparing state root, rewards and events; " +
		"non-trivial = at least one successful state-changing transaction and one failed one; distinct by scenario"
	self, err := os.Executable()
	must(err)
	cf := &vh.CasesFile{Imports: []string{"Base.Corr", "Model.Determinism", "Corr.Determinism"}, CaseType: "det_case", CheckFn: "det_check"}
	nRuns := o.N(6, 16)
	mkCfgs := func(s scen) []runCfg {
		var cs []runCfg
		for i := 0; i < nRuns; i++ {
			c := runCfg{procs: 1, cold: i%4 >= 2}
			if i%2 == 1 {
				c.procs = 16
			}
			if s.Late > 0 && i >= nRuns/2 {
				c.delay = s.Late
			}
			cs = append(cs, c)
		}
		return cs
	}
	handle := func(s scen) {
		rs, errs := execRuns(self, o.Out, s, mkCfgs(s))
		vs, _ := compare(s, rs, errs)
		ok, failed := 0, 0
		if errs[0] == "" {
			for _, b := range rs[0].Txns {
				for _, t := range b {
					switch {
					case t.Applied && t.Status == 1:
						ok++
					case t.Applied:
						failed++
					}
					rep.Count(fmt.Sprintf("txn-status-%d", t.Status))
				}
			}
		}
		rep.Count("scenario-" + s.Name)
		key, _ := json.Marshal(s)
		rep.Case(string(key), ok > 0 && failed > 0, s)
		// cases for the model
		if errs[0] == "" {
			if len(s.Triggers) == 0 {
				var ds []string
				for _, r := range rs {
					ds = append(ds, fmt.Sprint(runDigest(r)))
				}
				cf.Add("(DcRuns " + vh.List(ds) + ")")
				rep.CaseInputs = append(rep.CaseInputs, s)
			}
			for _, g := range s.Gov {
				var codes, obs []string
				// in sorted key order: the order in which the update loops visit the request
				order := make([]int, len(g.Entries))
				for i := range order {
					order[i] = i
				}
				sort.Slice(order, func(a, b int) bool { return g.Entries[order[a]][0] < g.Entries[order[b]][0] })
				for _, i := range order {
					if g.Bad[i] {
						k := i + 1
						codes = append(codes, optZ(&k))
					} else {
						codes = append(codes, "None")
					}
				}
				usable := true
				for _, r := range rs {
					t := r.Txns[g.Block][g.Txn]
					switch {
					case t.Applied && t.Status == 1:
						obs = append(obs, "None")
					case t.Applied:
						p := observedErr(t.Output, g)
						if p == nil {
							usable = false // rejected by validation of an otherwise acceptable request
						}
						obs = append(obs, optZ(p))
					default:
						usable = false
					}
				}
				if usable {
					cf.Add(fmt.Sprintf("(DcFirstErr %s %s)", vh.List(codes), vh.List(obs)))
					rep.CaseInputs = append(rep.CaseInputs, s)
				}
			}
		}
		for _, v := range vs {
			dup := false
			for _, old := range rep.Violations {
				dup = dup || old.Signature == v.sig
			}
			if !dup {
				rep.Violate(v.sig, v.desc, shrink(self, o.Out, s, v.sig, mkCfgs))
			}
		}
	}
	// fan-in scenario: the transactions of the last block are executed Repeat times on the same state by a cold
	// node (GOMAXPROCS 16); a warm node (one state cache since the registrations) executes the scenario once
	var mu sync.Mutex
	handleFan := func(s scen) {
		shape := s.Triggers[len(s.Triggers)-1]
		cold := s
		cold.Name = s.Name + "-cold"
		cold.Repeat = o.N(300, 3000)
		rsC, errC := execRuns(self, o.Out, cold, []runCfg{{procs: 16, cold: true}})
		warm := s
		warm.Name = s.Name + "-warm"
		rsW, errW := execRuns(self, o.Out, warm, []runCfg{{procs: 16, cold: false}})
		var vs []viol
		add := func(sig, f string, a ...interface{}) {
			vs = append(vs, viol{"C06:" + sig, s.Name + ": " + fmt.Sprintf(f, a...)})
		}
		last := s.Blocks[len(s.Blocks)-1]
		diverged := false
		if errC[0] != "" {
			add("worker-failed", "cold execution: %s", errC[0])
		} else {
			for t, v := range rsC[0].Variants {
				var ks []string
				for k := range v {
					ks = append(ks, k)
				}
				sort.Strings(ks)
				if len(v) > 1 && last.Txns[t].Probe {
					continue
				}
				if len(v) > 1 {
					diverged = true
					add("fan-in-error-depends-on-schedule:"+last.Txns[t].Fn+":"+shape, "the same transaction on the same state, %d executions in one process (GOMAXPROCS 16): %d times %q, %d times %q: "+
						"GetItemsByIDs returns the error of whichever goroutine finishes first", cold.Repeat, v[ks[0]], short(strings.SplitN(ks[0], "|", 2)[0]), v[ks[1]], short(strings.SplitN(ks[1], "|", 2)[0]))
				}
			}
		}
		switch {
		case strings.Contains(errW[0], "get trie node not copyable"):
			add("node-panics-on-cached-value-of-other-type", "a node that holds the registered miner/sharder nodes in its state cache (it executed their registration or a payFees) panics in a goroutine of GetItemsByIDs - "+
				"the process exits - when the request names them as blobbers: StateContext.GetTrieNode finds a cached MinerNode for provider:<id> and the requested StorageNode is not copyable; a node with a cold cache fails the transaction instead")
		case errW[0] != "":
			add("worker-failed", "warm execution: %s", errW[0])
		case errC[0] == "" && !diverged:
			v2, _ := compare(s, []result{rsC[0], rsW[0]}, []string{"", ""})
			vs = append(vs, v2...)
		}
		mu.Lock()
		defer mu.Unlock()
		rep.Count("scenario-fan-in-" + shape)
		key, _ := json.Marshal(s)
		rep.Case(string(key), true, s)
		if errC[0] == "" && len(rsC[0].Outputs) == len(last.Txns) {
			// model case: what each failing item gives on its own, and what the requests gave
			var items []string
			single := true
			for t, tx := range last.Txns {
				if tx.Probe {
					single = single && len(rsC[0].Outputs[t]) == 1
					for out := range rsC[0].Outputs[t] {
						items = append(items, fmt.Sprint(digest(out)))
					}
				}
			}
			if !single {
				add("fan-in-probe-not-deterministic", "a request naming one failing item twice gives more than one output")
			}
			for t, tx := range last.Txns {
				if !tx.Probe {
					var obs []string
					for out := range rsC[0].Outputs[t] {
						obs = append(obs, fmt.Sprint(digest(out)))
					}
					sort.Strings(obs)
					cf.Add("(DcFanIn " + vh.List(items) + " " + vh.List(obs) + ")")
					rep.CaseInputs = append(rep.CaseInputs, s)
				}
			}
		}
		for _, v := range dedupe(vs) {
			dup := false
			for _, old := range rep.Violations {
				dup = dup || old.Signature == v.sig
			}
			if !dup {
				rep.Violate(v.sig, v.desc, s)
			}
		}
	}
	handleReward := func(rc rewardCase, name string) {
		vs, first := runReward(rc)
		s := scen{Reward: &rc, Triggers: []string{"reward"}}
		s.Name = name
		var ds []string
		var ks []string
		for k := range vs {
			ks = append(ks, k)
			ds = append(ds, fmt.Sprint(digest(k)))
		}
		sort.Strings(ks)
		sort.Strings(ds)
		mu.Lock()
		defer mu.Unlock()
		rep.Count("scenario-reward")
		rep.Count(fmt.Sprintf("reward-n-%s-delegates", map[bool]string{true: "ge", false: "lt"}[rc.N >= len(rc.Balances)]))
		key, _ := json.Marshal(rc)
		rep.Case(string(key), strings.Contains(first, "event"), s)
		cf.Add("(DcRuns " + vh.List(ds) + ")")
		rep.CaseInputs = append(rep.CaseInputs, s)
		if len(vs) > 1 {
			sig := "C06:stake-pool-reward-depends-on-map-order"
			dup := false
			for _, old := range rep.Violations {
				dup = dup || old.Signature == sig
			}
			if !dup {
				rep.Violate(sig, fmt.Sprintf("%s: DistributeRewardsRandN of %d to a provider with %d delegates (N=%d, seed %d) on %d fresh copies of one state gives %d different results, e.g. %q (%d times) and %q (%d times)",
					name, rc.Value, len(rc.Balances), rc.N, rc.Seed, rc.Reps, len(vs), short(ks[0]), vs[ks[0]], short(ks[1]), vs[ks[1]]), s)
			}
		}
	}
	finish := func() {
		files, err := cf.Write(o.Out, "C06")
		must(err)
		rep.CaseFiles = files
		rep.ShardSize = 400
		rep.Write(o.Out)
	}
	var rs scen
	if o.LoadReplay(&rs) {
		if hasTrig(rs, "clock") {
			rs.BaseTime = time.Now().Unix() + 6
		}
		if rs.Reward != nil {
			handleReward(*rs.Reward, rs.Name)
		} else if hasTrig(rs, "fan-in") {
			handleFan(rs)
		} else {
			handle(rs)
		}
		finish()
		return
	}
	rnd := vh.NewRand(o.Seed)
	// the clock scenario runs concurrently with the others (it sleeps)
	var wg sync.WaitGroup
	wg.Add(2)
	go func() {
		defer wg.Done()
		frnd := vh.NewRand(o.Seed ^ 0xfa17)
		shapes := []string{"same-provider-type", "mixed-provider-types", "same-provider-type-nodes"}
		for i := 0; i < o.N(6, 30); i++ {
			s := fanScenario(frnd, shapes[i%3])
			s.Name = fmt.Sprintf("f%d-%s", i, shapes[i%3])
			handleFan(s)
		}
	}()
	go func() {
		defer wg.Done()
		s := clockScenario()
		rsx, errs := execRuns(self, o.Out, s, mkCfgs(s))
		vs, _ := compare(s, rsx, errs)
		mu.Lock()
		defer mu.Unlock()
		rep.Count("scenario-" + s.Name)
		key, _ := json.Marshal(s)
		rep.Case(string(key), true, s)
		for _, v := range vs {
			rep.Violate(v.sig, v.desc, s)
		}
	}()
	rrnd := vh.NewRand(o.Seed ^ 0x4e3a)
	for i := 0; i < o.N(60, 1000); i++ {
		handleReward(genReward(rrnd, o.N(16, 64)), fmt.Sprintf("r%d", i))
	}
	n := o.N(16, 120)
	for i := 0; i < n; i++ {
		kind := 0
		switch {
		case i%8 == 1 || i%8 == 5:
			kind = 1
		case i%8 == 3:
			kind = 2
		case i%8 == 7:
			kind = 3
		case i%8 == 2 || i%8 == 6:
			kind = 4
		case i%8 == 4:
			kind = 5
		}
		s := genScenario(rnd, kind)
		s.Name = fmt.Sprintf("s%d-kind%d", i, kind)
		mu.Lock()
		handle(s)
		mu.Unlock()
	}
	wg.Wait()
	rep.Note("each execution is a fresh process of the engine binary (own map hash seeds); executions differ in GOMAXPROCS (1, 16) and in cache warmth: warm = one statecache.StateCache " +
		"kept across all blocks (a node that executed the earlier blocks itself), cold = a fresh StateCache for every block (a node that starts from the committed MPT); both through " +
		"chain.UpdateState with a real block cache committed after each block")
	rep.Note("events are compared as a multiset for the scenario digest and as a sequence for the event-order signatures")
	finish()
}

// shrink: drop transactions while the signature still shows up (each attempt re-executes the scenario N times)
func shrink(self, dir string, s scen, sig string, mk func(scen) []runCfg) scen {
	if hasTrig(s, "clock") {
		return s
	}
	fails := func(s2 scen) bool {
		rs, errs := execRuns(self, dir, s2, mk(s2))
		vs, _ := compare(s2, rs, errs)
		for _, v := range vs {
			if v.sig == sig {
				return true
			}
		}
		return false
	}
	type pos struct{ b, t int }
	var all []pos
	for b := range s.Blocks {
		for t := range s.Blocks[b].Txns {
			all = append(all, pos{b, t})
		}
	}
	build := func(keep []int) scen {
		s2 := s
		s2.Gov = nil
		s2.Blocks = make([]sblock, len(s.Blocks))
		for _, i := range keep {
			p := all[i]
			s2.Blocks[p.b].Txns = append(s2.Blocks[p.b].Txns, s.Blocks[p.b].Txns[p.t])
		}
		return s2
	}
	keep := vh.ShrinkIdx(len(all), func(keep []int) bool { return len(keep) > 0 && fails(build(keep)) })
	out := build(keep)
	sort.Ints(keep)
	return out
}
