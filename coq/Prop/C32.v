(* C32: Batched signature checks agree with individual checks (idealised algebra).
   Model of core/encryption/bls0chain_aggregate.go: Aggregate puts item idx into batch
   idx / BatchSize; Verify adds all batches and compares ONE pairing equation
   e(sum sigma_i, g2) = prod e(H(m_i), pk_i). Only statements; each is closed by [exact] of a lemma
   in Proof/SigAlg.v. Scalars: sg_scalars (commutative ring without zero divisors, 1 <> 0,
   boolean equality). *)
From ZC Require Import Model.SigAlg Proof.SigAlg.
From Coq Require Import Sorting.Permutation.

(* all individually valid => the aggregate check accepts, for every batch size and batch split *)
Theorem C32_agg_complete : forall F f0 f1 fadd fmul fsub fopp feqb,
  sg_scalars F f0 f1 fadd fmul fsub fopp feqb ->
  forall n bs items, (0 < bs)%nat -> items <> [] ->
    Forall (fun it => ag_item_valid F f0 f1 fmul feqb n it = true) items ->
    ag_run F f0 f1 fadd fmul feqb n bs items = AgAccept.
Proof. exact sgb_agg_complete. Qed.
Print Assumptions C32_agg_complete.

(* the verdict never depends on how the signatures are split into batches *)
Theorem C32_batch_size_irrelevant : forall F f0 f1 fadd fmul fsub fopp feqb,
  sg_scalars F f0 f1 fadd fmul fsub fopp feqb ->
  forall n bs bs' items, (0 < bs)%nat -> (0 < bs')%nat -> items <> [] ->
    ag_run F f0 f1 fadd fmul feqb n bs items = ag_run F f0 f1 fadd fmul feqb n bs' items.
Proof. exact sgb_agg_batch_size_irrelevant. Qed.
Print Assumptions C32_batch_size_irrelevant.

(* the aggregate is a fold over the multiset of entries: the verdict is invariant under any
   permutation of the Aggregate calls (and any batch size). The engine calls the real Aggregate in
   descending / random / concurrent order and compares with this order-free model. *)
Theorem C32_aggregation_order_irrelevant : forall F f0 f1 fadd fmul fsub fopp feqb,
  sg_scalars F f0 f1 fadd fmul fsub fopp feqb ->
  forall n bs bs' items items', (0 < bs)%nat -> (0 < bs')%nat -> items <> [] ->
    Permutation items items' ->
    ag_run F f0 f1 fadd fmul feqb n bs items = ag_run F f0 f1 fadd fmul feqb n bs' items'.
Proof. exact sgb_agg_order_irrelevant. Qed.
Print Assumptions C32_aggregation_order_irrelevant.

(* the full statement: accepted => every individual signature is valid *)
Definition C32_agg_sound (F : Type) (f0 f1 : F) (fadd fmul fsub : F -> F -> F) (fopp : F -> F)
           (feqb : F -> F -> bool) : Prop :=
  forall n bs items, (0 < bs)%nat -> items <> [] ->
    ag_run F f0 f1 fadd fmul feqb n bs items = AgAccept ->
    Forall (fun it => ag_item_valid F f0 f1 fmul feqb n it = true) items.

(* refuted in every scalar ring: sigma1 + d, sigma2 - d *)
Theorem C32_agg_sound_refuted : forall F f0 f1 fadd fmul fsub fopp feqb,
  sg_scalars F f0 f1 fadd fmul fsub fopp feqb -> ~ C32_agg_sound F f0 f1 fadd fmul fsub fopp feqb.
Proof. exact sgb_agg_sound_refuted. Qed.
Print Assumptions C32_agg_sound_refuted.

(* the witness family: for ANY two keys and messages and ANY non-zero point d the pair
   (sigma1 + d, sigma2 - d) is accepted although both signatures are individually invalid *)
Theorem C32_cancelling_forgery_accepted : forall F f0 f1 fadd fmul fsub fopp feqb,
  sg_scalars F f0 f1 fadd fmul fsub fopp feqb ->
  forall n bs x1 x2 m1 m2 d i, (0 < bs)%nat -> (i < n)%nat -> d i <> f0 ->
    let items := ag_cancel_items F f0 f1 fadd fmul fsub x1 x2 m1 m2 d in
    ag_run F f0 f1 fadd fmul feqb n bs items = AgAccept /\
    Forall (fun it => ag_item_valid F f0 f1 fmul feqb n it = false) items.
Proof. exact sgb_agg_cancelling_forgery. Qed.
Print Assumptions C32_cancelling_forgery_accepted.

(* same message (tickets), rogue key x2 - x1: accepted although the victim x1 signed nothing *)
Theorem C32_rogue_key_accepted : forall F f0 f1 fadd fmul fsub fopp feqb,
  sg_scalars F f0 f1 fadd fmul fsub fopp feqb ->
  forall n bs x1 x2 m, (0 < bs)%nat -> (m < n)%nat -> x1 <> f0 ->
    let items := ag_rogue_items F f0 f1 fmul fsub x1 x2 m in
    ag_run F f0 f1 fadd fmul feqb n bs items = AgAccept /\
    ag_item_valid F f0 f1 fmul feqb n
      (nth 0 items {| ai_key := x1; ai_msg := m; ai_sig := sg_zero F f0 |}) = false.
Proof. exact sgb_agg_rogue_key. Qed.
Print Assumptions C32_rogue_key_accepted.

(* outside coordinated corruptions the batch check is sound: if all signatures but one are known
   to be valid and the aggregate accepts, the remaining one is valid (a single corrupted signature
   is always detected) *)
Theorem C32_agg_sound_partial : forall F f0 f1 fadd fmul fsub fopp feqb,
  sg_scalars F f0 f1 fadd fmul fsub fopp feqb ->
  forall n bs pre it post, (0 < bs)%nat ->
    Forall (fun x => ag_item_valid F f0 f1 fmul feqb n x = true) pre ->
    Forall (fun x => ag_item_valid F f0 f1 fmul feqb n x = true) post ->
    ag_run F f0 f1 fadd fmul feqb n bs (pre ++ it :: post) = AgAccept ->
    ag_item_valid F f0 f1 fmul feqb n it = true.
Proof. exact sgb_agg_sound_partial. Qed.
Print Assumptions C32_agg_sound_partial.

(* chain.VerifyTickets and miner ValidateTransactions test only the error of Verify() and ignore
   its bool: since a failed comparison returns (false, error), the callers accept exactly when the
   verdict is AgAccept (a (false, nil) return would be taken for success) *)
Theorem C32_callers_err_only_agree : forall v : ag_verdict,
  ag_caller_accepts (ag_go_result v) = match v with AgAccept => true | _ => false end.
Proof. exact ag_caller_view_agrees. Qed.
Print Assumptions C32_callers_err_only_agree.

(* verification is a pure function of (keys, messages, signatures): the verdict of a call does not
   depend on the verifications performed before it with the same scheme objects. The engine runs
   sequences of calls over long-lived objects; a different verdict on a later call is a
   correspondence failure. *)
Theorem C32_verdict_is_history_independent : forall F f0 f1 fadd fmul feqb n
    (pre post : list (nat * list (ag_item F))) (c : nat * list (ag_item F)),
  nth (length pre) (ag_history F f0 f1 fadd fmul feqb n (pre ++ c :: post)) AgPanic
  = ag_run F f0 f1 fadd fmul feqb n (fst c) (snd c).
Proof. exact ag_history_independent. Qed.
Print Assumptions C32_verdict_is_history_independent.

(* Non-vacuity over Z_r: three valid signatures in batches of 2 are accepted; corrupting one is
   rejected; the cancelling pair is accepted *)
Example C32_example :
  let add := zq_add sx_r in let mul := zq_mul sx_r in let sub := zq_sub sx_r in
  let eqb := fun a b : Z => Z.eqb a b in
  let sg := bls_sign Z 0%Z 1%Z mul in
  let it k m s := {| ai_key := sx_key k; ai_msg := m; ai_sig := s |} in
  let d := sg_unit Z 0%Z 1%Z 5 in
  ag_run Z 0%Z 1%Z add mul eqb 6 2 [it 0 0 (sg (sx_key 0) 0); it 1 1 (sg (sx_key 1) 1); it 2 2 (sg (sx_key 2) 2)]%nat = AgAccept /\
  ag_run Z 0%Z 1%Z add mul eqb 6 2 [it 0 0 (sg (sx_key 0) 0); it 1 1 (sg_add Z add (sg (sx_key 1) 1) d); it 2 2 (sg (sx_key 2) 2)]%nat = AgReject /\
  ag_run Z 0%Z 1%Z add mul eqb 6 2 [it 0 0 (sg_add Z add (sg (sx_key 0) 0) d); it 1 1 (sg_sub Z sub (sg (sx_key 1) 1) d)]%nat = AgAccept /\
  ag_run Z 0%Z 1%Z add mul eqb 6 0 [it 0 0 (sg (sx_key 0) 0)]%nat = AgPanic.
Proof. vm_compute. repeat split; reflexivity. Qed.
